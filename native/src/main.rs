//! Scenarios for the Miri engine. `kanal-native <scenario>`; exit 0 = completed and all values accounted for.
//! Payloads own heap memory here on purpose: under Miri a double drop, a use after free, a read of an
//! uninitialised slot or a data race is reported by the interpreter itself.
use futures_core::Stream;
use std::future::Future;
use std::sync::atomic::{AtomicBool, AtomicUsize, Ordering};
use std::sync::Arc;
use std::task::{Context, Poll, Wake, Waker};
use std::thread;
use std::time::Duration;

static LIVE: AtomicUsize = AtomicUsize::new(0);

struct Msg {
    id: u64,
    b: Box<u64>,
    pad: [u64; 3],
}
impl Msg {
    fn new(id: u64) -> Msg {
        LIVE.fetch_add(1, Ordering::SeqCst);
        Msg { id, b: Box::new(!id), pad: [id; 3] }
    }
    fn check(&self) {
        assert_eq!(*self.b, !self.id);
        assert_eq!(self.pad, [self.id; 3]);
    }
}
impl Drop for Msg {
    fn drop(&mut self) {
        LIVE.fetch_sub(1, Ordering::SeqCst);
    }
}
/// pointer-sized owning payload
struct Small(Box<u32>);

struct TW {
    t: thread::Thread,
    f: AtomicBool,
}
impl Wake for TW {
    fn wake(self: Arc<Self>) {
        self.f.store(true, Ordering::SeqCst);
        self.t.unpark();
    }
}
fn new_waker() -> (Arc<TW>, Waker) {
    let a = Arc::new(TW { t: thread::current(), f: AtomicBool::new(false) });
    (a.clone(), Waker::from(a))
}
fn block_on<F: Future>(f: F) -> F::Output {
    let mut f = Box::pin(f);
    let (a, w) = new_waker();
    loop {
        let mut cx = Context::from_waker(&w);
        if let Poll::Ready(x) = f.as_mut().poll(&mut cx) {
            return x;
        }
        while !a.f.swap(false, Ordering::SeqCst) {
            thread::park();
        }
    }
}
/// polls with a fresh waker every time (waker replacement) and spuriously in between
fn block_on_fresh_wakers<F: Future>(f: F) -> F::Output {
    let mut f = Box::pin(f);
    loop {
        let (a, w) = new_waker();
        let mut cx = Context::from_waker(&w);
        if let Poll::Ready(x) = f.as_mut().poll(&mut cx) {
            return x;
        }
        // one spurious poll with yet another waker
        let (a2, w2) = new_waker();
        let mut cx2 = Context::from_waker(&w2);
        if let Poll::Ready(x) = f.as_mut().poll(&mut cx2) {
            return x;
        }
        let _ = a;
        while !a2.f.swap(false, Ordering::SeqCst) {
            thread::park();
        }
    }
}

/// busy polling with a waker that does nothing: completion is observed by the poll alone,
/// without any synchronisation through a wake-up
fn busy_poll<F: Future>(f: F) -> F::Output {
    struct Noop;
    impl Wake for Noop {
        fn wake(self: Arc<Self>) {}
    }
    let w = Waker::from(Arc::new(Noop));
    let mut cx = Context::from_waker(&w);
    let mut f = Box::pin(f);
    loop {
        if let Poll::Ready(x) = f.as_mut().poll(&mut cx) {
            return x;
        }
        thread::yield_now();
    }
}
fn async_recv_busy_poll() {
    let (s, r) = kanal::bounded_async::<Msg>(0);
    let s = s.to_sync();
    let t = thread::spawn(move || {
        s.send(Msg::new(1)).unwrap();
        s.send(Msg::new(2)).unwrap();
    });
    let a = busy_poll(r.recv()).unwrap();
    a.check();
    let b = busy_poll(r.recv()).unwrap();
    b.check();
    assert_eq!((a.id, b.id), (1, 2));
    t.join().unwrap();
}
fn async_send_busy_poll() {
    let (s, r) = kanal::bounded_async::<Small>(0);
    let r = r.to_sync();
    let t = thread::spawn(move || {
        assert_eq!(*r.recv().unwrap().0, 1);
        assert_eq!(*r.recv().unwrap().0, 2);
    });
    busy_poll(s.send(Small(Box::new(1)))).unwrap();
    busy_poll(s.send(Small(Box::new(2)))).unwrap();
    t.join().unwrap();
}

fn sync_rendezvous() {
    let (s, r) = kanal::bounded::<Msg>(0);
    let t = thread::spawn(move || {
        for i in 0..3 {
            s.send(Msg::new(i)).unwrap();
        }
    });
    for i in 0..3 {
        let m = r.recv().unwrap();
        assert_eq!(m.id, i);
        m.check();
    }
    t.join().unwrap();
}
fn sync_mpsc_cap1() {
    let (s, r) = kanal::bounded::<Msg>(1);
    let mut ts = vec![];
    for k in 0..2u64 {
        let s = s.clone();
        ts.push(thread::spawn(move || {
            for i in 0..2 {
                s.send(Msg::new(k * 10 + i)).unwrap();
            }
        }));
    }
    drop(s);
    let mut n = 0;
    while let Ok(m) = r.recv() {
        m.check();
        n += 1;
    }
    assert_eq!(n, 4);
    for t in ts {
        t.join().unwrap();
    }
}
fn small_payload_paths() {
    let (s, r) = kanal::bounded::<Small>(0);
    let t = thread::spawn(move || {
        s.send(Small(Box::new(7))).unwrap();
        let mut o = Some(Small(Box::new(8)));
        s.send_option_timeout(&mut o, Duration::from_secs(5)).unwrap();
        assert!(o.is_none());
    });
    assert_eq!(*r.recv().unwrap().0, 7);
    assert_eq!(*r.recv_timeout(Duration::from_secs(5)).unwrap().0, 8);
    t.join().unwrap();
}
fn async_send_sync_recv() {
    let (s, r) = kanal::bounded_async::<Msg>(0);
    let r = r.to_sync();
    let t = thread::spawn(move || {
        block_on(async {
            s.send(Msg::new(1)).await.unwrap();
            s.send(Msg::new(2)).await.unwrap();
        })
    });
    assert_eq!(r.recv().unwrap().id, 1);
    assert_eq!(r.recv().unwrap().id, 2);
    t.join().unwrap();
}
fn async_recv_waker_change() {
    let (s, r) = kanal::bounded_async::<Msg>(0);
    let s = s.to_sync();
    let t = thread::spawn(move || {
        s.send(Msg::new(5)).unwrap();
        s.send(Msg::new(6)).unwrap();
    });
    let a = block_on_fresh_wakers(r.recv()).unwrap();
    let b = block_on_fresh_wakers(r.recv()).unwrap();
    assert_eq!((a.id, b.id), (5, 6));
    t.join().unwrap();
}
fn async_send_waker_change() {
    let (s, r) = kanal::bounded_async::<Msg>(0);
    let r = r.to_sync();
    let t = thread::spawn(move || {
        let a = r.recv().unwrap();
        let b = r.recv().unwrap();
        assert_eq!((a.id, b.id), (5, 6));
    });
    block_on_fresh_wakers(s.send(Msg::new(5))).unwrap();
    block_on_fresh_wakers(s.send(Msg::new(6))).unwrap();
    t.join().unwrap();
}
fn cancel_recv_future() {
    let (s, r) = kanal::bounded_async::<Msg>(0);
    let s2 = s.clone_sync();
    let t = thread::spawn(move || {
        // may be delivered into the future that is being dropped, or fail when the receiver goes away
        let _ = s2.send_timeout(Msg::new(9), Duration::from_millis(50));
    });
    {
        let mut f = Box::pin(r.recv());
        let (_a, w) = new_waker();
        let mut cx = Context::from_waker(&w);
        let _ = f.as_mut().poll(&mut cx);
        thread::yield_now();
        drop(f);
    }
    drop(r);
    drop(s);
    t.join().unwrap();
}
fn cancel_send_future() {
    let (s, r) = kanal::bounded_async::<Msg>(0);
    let r2 = r.clone_sync();
    let t = thread::spawn(move || {
        let _ = r2.recv_timeout(Duration::from_millis(50));
    });
    {
        let mut f = Box::pin(s.send(Msg::new(3)));
        let (_a, w) = new_waker();
        let mut cx = Context::from_waker(&w);
        let _ = f.as_mut().poll(&mut cx);
        thread::yield_now();
        drop(f);
    }
    drop(s);
    drop(r);
    t.join().unwrap();
}
fn close_races_blocked() {
    let (s, r) = kanal::bounded::<Msg>(0);
    let s2 = s.clone();
    let t1 = thread::spawn(move || {
        let _ = s2.send(Msg::new(1));
    });
    let r2 = r.clone_async();
    let t2 = thread::spawn(move || {
        let _ = block_on(r2.recv());
    });
    thread::yield_now();
    let _ = s.close();
    t1.join().unwrap();
    t2.join().unwrap();
    assert!(r.recv().is_err());
}
fn timeouts() {
    let (s, r) = kanal::bounded::<Msg>(0);
    let t = thread::spawn(move || {
        let _ = s.send_timeout(Msg::new(1), Duration::from_micros(300));
        let mut o = Some(Msg::new(2));
        let _ = s.send_option_timeout(&mut o, Duration::from_micros(300));
    });
    let _ = r.recv_timeout(Duration::from_micros(200));
    let _ = r.recv_timeout(Duration::from_micros(200));
    t.join().unwrap();
}
fn stream_spurious() {
    let (s, r) = kanal::bounded_async::<Msg>(1);
    let s = s.to_sync();
    let t = thread::spawn(move || {
        for i in 0..3 {
            s.send(Msg::new(i)).unwrap();
        }
    });
    let mut st = Box::pin(r.stream());
    let mut got = vec![];
    loop {
        let (a, w) = new_waker();
        let mut cx = Context::from_waker(&w);
        match st.as_mut().poll_next(&mut cx) {
            Poll::Ready(Some(m)) => {
                m.check();
                got.push(m.id)
            }
            Poll::Ready(None) => break,
            Poll::Pending => {
                // spurious poll with the same waker, then wait
                if let Poll::Ready(x) = st.as_mut().poll_next(&mut cx) {
                    match x {
                        Some(m) => got.push(m.id),
                        None => break,
                    }
                    continue;
                }
                while !a.f.swap(false, Ordering::SeqCst) {
                    thread::park();
                }
            }
        }
    }
    assert_eq!(got, vec![0, 1, 2]);
    t.join().unwrap();
}
fn drain_blocked_senders() {
    let (s, r) = kanal::bounded::<Msg>(1);
    let mut ts = vec![];
    for k in 0..3u64 {
        let s = s.clone();
        ts.push(thread::spawn(move || {
            s.send(Msg::new(k)).unwrap();
        }));
    }
    drop(s);
    let mut v = Vec::new();
    let mut n = 0;
    while n < 3 {
        n += r.drain_into(&mut v).unwrap();
        thread::yield_now();
    }
    for m in &v {
        m.check();
    }
    for t in ts {
        t.join().unwrap();
    }
}
#[repr(align(64))]
struct Z64;
fn zst_and_padding() {
    let (s, r) = kanal::bounded::<Z64>(0);
    let t = thread::spawn(move || {
        s.send(Z64).unwrap();
    });
    let z = r.recv().unwrap();
    assert_eq!(&z as *const Z64 as usize % 64, 0);
    t.join().unwrap();
    #[repr(C)]
    struct P {
        a: u8,
        b: u64,
    }
    let (s, r) = kanal::bounded::<P>(0);
    let t = thread::spawn(move || {
        s.send(P { a: 3, b: 4 }).unwrap();
    });
    let p = r.recv().unwrap();
    assert_eq!((p.a, p.b), (3, 4));
    t.join().unwrap();
}

/// zero-sized message with a destructor: accounted by count only
struct ZD;
static ZLIVE: AtomicUsize = AtomicUsize::new(0);
impl ZD {
    fn new() -> ZD {
        ZLIVE.fetch_add(1, Ordering::SeqCst);
        ZD
    }
}
impl Drop for ZD {
    fn drop(&mut self) {
        ZLIVE.fetch_sub(1, Ordering::SeqCst);
    }
}
fn realtime_contention() {
    let (s, r) = kanal::bounded::<Msg>(1);
    let s2 = s.clone();
    let r2 = r.clone();
    let t1 = thread::spawn(move || {
        let mut sent = 0;
        for i in 0..6 {
            if s2.try_send_realtime(Msg::new(100 + i)).unwrap_or(false) {
                sent += 1;
            }
            let mut o = Some(Msg::new(200 + i));
            if s2.try_send_option_realtime(&mut o).unwrap_or(false) {
                assert!(o.is_none());
                sent += 1;
            } else {
                assert!(o.is_some());
            }
        }
        sent
    });
    let t2 = thread::spawn(move || {
        let mut got = 0;
        for _ in 0..8 {
            if let Ok(Some(m)) = r2.try_recv_realtime() {
                m.check();
                got += 1;
            }
            if let Ok(Some(m)) = r2.try_recv() {
                m.check();
                got += 1;
            }
        }
        got
    });
    let _ = s.try_send(Msg::new(1));
    let sent = t1.join().unwrap();
    let got = t2.join().unwrap();
    drop(s);
    let mut rest = 0;
    while let Ok(m) = r.recv() {
        m.check();
        rest += 1;
    }
    assert!(got + rest >= sent && got + rest <= sent + 1);
}
fn drain_async_pending_senders() {
    let (s, r) = kanal::bounded_async::<Msg>(0);
    let r = r.to_sync();
    let mut ts = vec![];
    for k in 0..2u64 {
        let s = s.clone();
        ts.push(thread::spawn(move || {
            block_on_fresh_wakers(s.send(Msg::new(k))).unwrap();
        }));
    }
    let s3 = s.clone_sync();
    ts.push(thread::spawn(move || {
        s3.send(Msg::new(2)).unwrap();
    }));
    drop(s);
    let mut v = vec![Msg::new(77)];
    let mut n = 0;
    while n < 3 {
        n += r.drain_into(&mut v).unwrap();
        thread::yield_now();
    }
    assert_eq!(v.len(), 4);
    assert_eq!(v[0].id, 77);
    for m in &v {
        m.check();
    }
    for t in ts {
        t.join().unwrap();
    }
}
fn iter_until_disconnect() {
    let (s, r) = kanal::bounded::<Msg>(2);
    let s2 = s.clone_async();
    let t1 = thread::spawn(move || {
        for i in 0..3 {
            s.send(Msg::new(i)).unwrap();
        }
    });
    let t2 = thread::spawn(move || {
        block_on(async {
            for i in 10..12 {
                s2.send(Msg::new(i)).await.unwrap();
            }
        })
    });
    let mut n = 0;
    let mut last_a = None;
    for m in r {
        m.check();
        if m.id < 10 {
            assert!(last_a.map_or(true, |l| l < m.id));
            last_a = Some(m.id);
        }
        n += 1;
    }
    assert_eq!(n, 5);
    t1.join().unwrap();
    t2.join().unwrap();
}
fn clone_convert_drop_race() {
    let (s, r) = kanal::bounded::<Msg>(1);
    let mut ts = vec![];
    for k in 0..2u64 {
        let s = s.clone();
        ts.push(thread::spawn(move || {
            let a = s.clone_async();
            let b = a.clone();
            drop(s);
            let c = b.to_sync();
            c.send(Msg::new(k)).unwrap();
            assert!(a.sender_count() >= 2);
            drop(a);
            let _ = c.as_async().try_send(Msg::new(10 + k));
        }));
    }
    drop(s);
    let ra = r.clone_async();
    let t = thread::spawn(move || {
        let mut n = 0;
        while let Ok(m) = block_on(ra.recv()) {
            m.check();
            n += 1;
        }
        n
    });
    let mut n = 0;
    while let Ok(m) = r.recv() {
        m.check();
        n += 1;
    }
    n += t.join().unwrap();
    assert!((2..=4).contains(&n));
    assert_eq!(r.sender_count(), 0);
    for t in ts {
        t.join().unwrap();
    }
}
fn close_with_buffered_and_blocked() {
    let (s, r) = kanal::bounded::<Msg>(2);
    s.send(Msg::new(1)).unwrap();
    s.send(Msg::new(2)).unwrap();
    let s2 = s.clone();
    let t1 = thread::spawn(move || {
        let _ = s2.send(Msg::new(3));
    });
    let s3 = s.clone_async();
    let t2 = thread::spawn(move || {
        let _ = block_on(s3.send(Msg::new(4)));
    });
    let t3 = thread::spawn(move || {
        let mut o = Some(Msg::new(5));
        let res = s.send_option_timeout(&mut o, Duration::from_secs(5));
        assert_eq!(res.is_ok(), o.is_none());
    });
    thread::yield_now();
    r.close().unwrap();
    assert_eq!(r.len(), 0);
    assert!(r.close().is_err());
    t1.join().unwrap();
    t2.join().unwrap();
    t3.join().unwrap();
}
fn timed_handoff_races() {
    let (s, r) = kanal::bounded::<Small>(0);
    let t = thread::spawn(move || {
        let mut sent = 0u32;
        for i in 0..3u32 {
            let mut o = Some(Small(Box::new(i)));
            match s.send_option_timeout(&mut o, Duration::from_micros(150)) {
                Ok(()) => {
                    assert!(o.is_none());
                    sent += 1
                }
                Err(_) => assert_eq!(*o.take().unwrap().0, i),
            }
            if s.send_timeout(Small(Box::new(50 + i)), Duration::from_micros(150)).is_ok() {
                sent += 1;
            }
        }
        sent
    });
    let mut got = 0u32;
    // bounded number of attempts: under Miri's fast virtual clock a short deadline has usually passed
    // before the disconnect check is reached, so "until disconnected" would never end
    for _ in 0..60 {
        match r.recv_timeout(Duration::from_micros(120)) {
            Ok(v) => {
                assert!(*v.0 < 100);
                got += 1
            }
            Err(kanal::ReceiveErrorTimeout::Timeout) => continue,
            Err(_) => break,
        }
    }
    drop(r);
    assert_eq!(got, t.join().unwrap());
}
fn zst_with_drop() {
    let (s, r) = kanal::bounded::<ZD>(1);
    let s2 = s.clone();
    let t = thread::spawn(move || {
        for _ in 0..3 {
            s2.send(ZD::new()).unwrap();
        }
        let _ = s2.send_timeout(ZD::new(), Duration::from_micros(100));
    });
    let a = r.recv().unwrap();
    let b = r.recv_timeout(Duration::from_secs(5)).unwrap();
    drop((a, b));
    t.join().unwrap();
    let _ = s.try_send(ZD::new());
    // whatever is still buffered is destroyed by close
    r.close().unwrap();
    drop((s, r));
    assert_eq!(ZLIVE.load(Ordering::SeqCst), 0, "zero-sized message leaked or dropped twice");
}
fn stream_dropped_midway() {
    let (s, r) = kanal::bounded_async::<Msg>(0);
    let s2 = s.clone_sync();
    let t = thread::spawn(move || {
        let mut ok = 0;
        for i in 0..3 {
            if s2.send_timeout(Msg::new(i), Duration::from_millis(20)).is_ok() {
                ok += 1;
            }
        }
        ok
    });
    let mut got = 0;
    {
        let mut st = Box::pin(r.stream());
        let (a, w) = new_waker();
        let mut cx = Context::from_waker(&w);
        loop {
            match st.as_mut().poll_next(&mut cx) {
                Poll::Ready(Some(m)) => {
                    m.check();
                    got += 1;
                    break;
                }
                Poll::Ready(None) => break,
                Poll::Pending => {
                    while !a.f.swap(false, Ordering::SeqCst) {
                        thread::park();
                    }
                }
            }
        }
        // start the next receive, then abandon the stream while the sender may be handing off
        let _ = st.as_mut().poll_next(&mut cx);
        thread::yield_now();
    }
    drop(r);
    drop(s);
    let ok = t.join().unwrap();
    assert!(got <= ok);
}
fn async_mpmc_cap1() {
    let (s, r) = kanal::bounded_async::<Msg>(1);
    let mut ts = vec![];
    for k in 0..2u64 {
        let s = s.clone();
        ts.push(thread::spawn(move || {
            block_on(async {
                for i in 0..2 {
                    s.send(Msg::new(k * 10 + i)).await.unwrap();
                }
            });
            0
        }));
    }
    drop(s);
    for _ in 0..2 {
        let r = r.clone();
        ts.push(thread::spawn(move || {
            let mut n = 0;
            while let Ok(m) = block_on_fresh_wakers(r.recv()) {
                m.check();
                n += 1;
            }
            n
        }));
    }
    drop(r);
    let total: i32 = ts.into_iter().map(|t| t.join().unwrap()).sum();
    assert_eq!(total, 4);
}
fn unbounded_burst() {
    let (s, r) = kanal::unbounded::<Msg>();
    let t = thread::spawn(move || {
        for i in 0..12 {
            s.send(Msg::new(i)).unwrap();
            if i % 4 == 0 {
                assert!(s.try_send(Msg::new(100 + i)).unwrap());
            }
        }
    });
    let mut last = None;
    let mut n = 0;
    while let Ok(m) = r.recv() {
        m.check();
        if m.id < 100 {
            assert!(last.map_or(true, |l| l < m.id));
            last = Some(m.id);
        }
        n += 1;
    }
    assert_eq!(n, 15);
    t.join().unwrap();
}
fn last_receiver_drop_releases_senders() {
    let (s, r) = kanal::bounded::<Msg>(0);
    let s2 = s.clone();
    let t1 = thread::spawn(move || {
        assert!(s2.send(Msg::new(1)).is_err());
    });
    let s3 = s.clone_async();
    let t2 = thread::spawn(move || {
        assert!(block_on(s3.send(Msg::new(2))).is_err());
    });
    let r2 = r.clone_async();
    drop(r);
    thread::yield_now();
    drop(r2);
    t1.join().unwrap();
    t2.join().unwrap();
    assert!(s.send(Msg::new(3)).is_err());
    assert!(s.is_disconnected());
}

/// a timed send whose deadline expires just as the last receiver goes away: the sender learns of the termination on
/// its timeout path and returns at once; whatever the terminating thread did to the sender's waiter must be ordered
/// before that return
fn timeout_vs_last_receiver_drop() {
    for (round, us) in [30u64, 60, 90, 120, 180, 240, 360].iter().enumerate() {
        let (s, r) = kanal::bounded::<Msg>(0);
        let us = *us;
        let t = thread::spawn(move || {
            let _ = s.send_timeout(Msg::new(round as u64), Duration::from_micros(us));
        });
        for _ in 0..(round % 3) {
            thread::yield_now();
        }
        drop(r);
        t.join().unwrap();
    }
    for (round, us) in [30u64, 60, 90, 120, 180, 240, 360].iter().enumerate() {
        let (s, r) = kanal::bounded::<Msg>(0);
        let us = *us;
        let t = thread::spawn(move || {
            let _ = r.recv_timeout(Duration::from_micros(us));
        });
        for _ in 0..(round % 3) {
            thread::yield_now();
        }
        drop(s);
        t.join().unwrap();
    }
}

pub const SCENARIOS: &[(&str, fn())] = &[
    ("sync_rendezvous", sync_rendezvous),
    ("sync_mpsc_cap1", sync_mpsc_cap1),
    ("small_payload_paths", small_payload_paths),
    ("async_send_sync_recv", async_send_sync_recv),
    ("async_recv_waker_change", async_recv_waker_change),
    ("async_send_waker_change", async_send_waker_change),
    ("cancel_recv_future", cancel_recv_future),
    ("cancel_send_future", cancel_send_future),
    ("close_races_blocked", close_races_blocked),
    ("timeouts", timeouts),
    ("stream_spurious", stream_spurious),
    ("drain_blocked_senders", drain_blocked_senders),
    ("zst_and_padding", zst_and_padding),
    ("async_recv_busy_poll", async_recv_busy_poll),
    ("async_send_busy_poll", async_send_busy_poll),
    ("realtime_contention", realtime_contention),
    ("drain_async_pending_senders", drain_async_pending_senders),
    ("iter_until_disconnect", iter_until_disconnect),
    ("clone_convert_drop_race", clone_convert_drop_race),
    ("close_with_buffered_and_blocked", close_with_buffered_and_blocked),
    ("timed_handoff_races", timed_handoff_races),
    ("zst_with_drop", zst_with_drop),
    ("stream_dropped_midway", stream_dropped_midway),
    ("async_mpmc_cap1", async_mpmc_cap1),
    ("unbounded_burst", unbounded_burst),
    ("last_receiver_drop_releases_senders", last_receiver_drop_releases_senders),
    ("timeout_vs_last_receiver_drop", timeout_vs_last_receiver_drop),
];

fn main() {
    let which = std::env::args().nth(1).unwrap_or_else(|| "list".into());
    if which == "list" {
        for (n, _) in SCENARIOS {
            println!("{}", n);
        }
        return;
    }
    let f = SCENARIOS.iter().find(|(n, _)| *n == which).expect("unknown scenario").1;
    f();
    assert_eq!(LIVE.load(Ordering::SeqCst), 0, "a message was leaked or dropped twice");
}
