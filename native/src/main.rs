//! Scenarios for the Miri engine. `kanal-native <scenario>`; exit 0 = completed and all values accounted for.
//! Payloads own heap memory here on purpose: under Miri a double drop, a use after free, a read of an
//! uninitialised slot or a data race is reported by the interpreter itself.
use futures_core::Stream;
use std::future::Future;
use std::pin::Pin;
use std::sync::atomic::{AtomicBool, AtomicUsize, Ordering};
use std::sync::Arc;
use std::task::{Context, Poll, Wake, Waker};
use std::thread;
use std::time::Duration;

static LIVE: AtomicUsize = AtomicUsize::new(0);

struct Msg {
    id: u64,
    b: Box<u64>,
    pad: [u64; 3],
}
impl Msg {
    fn new(id: u64) -> Msg {
        LIVE.fetch_add(1, Ordering::SeqCst);
        Msg { id, b: Box::new(!id), pad: [id; 3] }
    }
    fn check(&self) {
        assert_eq!(*self.b, !self.id);
        assert_eq!(self.pad, [self.id; 3]);
    }
}
impl Drop for Msg {
    fn drop(&mut self) {
        LIVE.fetch_sub(1, Ordering::SeqCst);
    }
}
/// pointer-sized owning payload
struct Small(Box<u32>);

struct TW {
    t: thread::Thread,
    f: AtomicBool,
}
impl Wake for TW {
    fn wake(self: Arc<Self>) {
        self.f.store(true, Ordering::SeqCst);
        self.t.unpark();
    }
}
fn new_waker() -> (Arc<TW>, Waker) {
    let a = Arc::new(TW { t: thread::current(), f: AtomicBool::new(false) });
    (a.clone(), Waker::from(a))
}
fn block_on<F: Future>(f: F) -> F::Output {
    let mut f = Box::pin(f);
    let (a, w) = new_waker();
    loop {
        let mut cx = Context::from_waker(&w);
        if let Poll::Ready(x) = f.as_mut().poll(&mut cx) {
            return x;
        }
        while !a.f.swap(false, Ordering::SeqCst) {
            thread::park();
        }
    }
}
/// polls with a fresh waker every time (waker replacement) and spuriously in between
fn block_on_fresh_wakers<F: Future>(f: F) -> F::Output {
    let mut f = Box::pin(f);
    loop {
        let (a, w) = new_waker();
        let mut cx = Context::from_waker(&w);
        if let Poll::Ready(x) = f.as_mut().poll(&mut cx) {
            return x;
        }
        // one spurious poll with yet another waker
        let (a2, w2) = new_waker();
        let mut cx2 = Context::from_waker(&w2);
        if let Poll::Ready(x) = f.as_mut().poll(&mut cx2) {
            return x;
        }
        let _ = a;
        while !a2.f.swap(false, Ordering::SeqCst) {
            thread::park();
        }
    }
}

/// busy polling with a waker that does nothing: completion is observed by the poll alone,
/// without any synchronisation through a wake-up
fn busy_poll<F: Future>(f: F) -> F::Output {
    struct Noop;
    impl Wake for Noop {
        fn wake(self: Arc<Self>) {}
    }
    let w = Waker::from(Arc::new(Noop));
    let mut cx = Context::from_waker(&w);
    let mut f = Box::pin(f);
    loop {
        if let Poll::Ready(x) = f.as_mut().poll(&mut cx) {
            return x;
        }
        thread::yield_now();
    }
}
fn async_recv_busy_poll() {
    let (s, r) = kanal::bounded_async::<Msg>(0);
    let s = s.to_sync();
    let t = thread::spawn(move || {
        s.send(Msg::new(1)).unwrap();
        s.send(Msg::new(2)).unwrap();
    });
    let a = busy_poll(r.recv()).unwrap();
    a.check();
    let b = busy_poll(r.recv()).unwrap();
    b.check();
    assert_eq!((a.id, b.id), (1, 2));
    t.join().unwrap();
}
fn async_send_busy_poll() {
    let (s, r) = kanal::bounded_async::<Small>(0);
    let r = r.to_sync();
    let t = thread::spawn(move || {
        assert_eq!(*r.recv().unwrap().0, 1);
        assert_eq!(*r.recv().unwrap().0, 2);
    });
    busy_poll(s.send(Small(Box::new(1)))).unwrap();
    busy_poll(s.send(Small(Box::new(2)))).unwrap();
    t.join().unwrap();
}

fn sync_rendezvous() {
    let (s, r) = kanal::bounded::<Msg>(0);
    let t = thread::spawn(move || {
        for i in 0..3 {
            s.send(Msg::new(i)).unwrap();
        }
    });
    for i in 0..3 {
        let m = r.recv().unwrap();
        assert_eq!(m.id, i);
        m.check();
    }
    t.join().unwrap();
}
fn sync_mpsc_cap1() {
    let (s, r) = kanal::bounded::<Msg>(1);
    let mut ts = vec![];
    for k in 0..2u64 {
        let s = s.clone();
        ts.push(thread::spawn(move || {
            for i in 0..2 {
                s.send(Msg::new(k * 10 + i)).unwrap();
            }
        }));
    }
    drop(s);
    let mut n = 0;
    while let Ok(m) = r.recv() {
        m.check();
        n += 1;
    }
    assert_eq!(n, 4);
    for t in ts {
        t.join().unwrap();
    }
}
fn small_payload_paths() {
    let (s, r) = kanal::bounded::<Small>(0);
    let t = thread::spawn(move || {
        s.send(Small(Box::new(7))).unwrap();
        let mut o = Some(Small(Box::new(8)));
        s.send_option_timeout(&mut o, Duration::from_secs(5)).unwrap();
        assert!(o.is_none());
    });
    assert_eq!(*r.recv().unwrap().0, 7);
    assert_eq!(*r.recv_timeout(Duration::from_secs(5)).unwrap().0, 8);
    t.join().unwrap();
}
fn async_send_sync_recv() {
    let (s, r) = kanal::bounded_async::<Msg>(0);
    let r = r.to_sync();
    let t = thread::spawn(move || {
        block_on(async {
            s.send(Msg::new(1)).await.unwrap();
            s.send(Msg::new(2)).await.unwrap();
        })
    });
    assert_eq!(r.recv().unwrap().id, 1);
    assert_eq!(r.recv().unwrap().id, 2);
    t.join().unwrap();
}
fn async_recv_waker_change() {
    let (s, r) = kanal::bounded_async::<Msg>(0);
    let s = s.to_sync();
    let t = thread::spawn(move || {
        s.send(Msg::new(5)).unwrap();
        s.send(Msg::new(6)).unwrap();
    });
    let a = block_on_fresh_wakers(r.recv()).unwrap();
    let b = block_on_fresh_wakers(r.recv()).unwrap();
    assert_eq!((a.id, b.id), (5, 6));
    t.join().unwrap();
}
fn async_send_waker_change() {
    let (s, r) = kanal::bounded_async::<Msg>(0);
    let r = r.to_sync();
    let t = thread::spawn(move || {
        let a = r.recv().unwrap();
        let b = r.recv().unwrap();
        assert_eq!((a.id, b.id), (5, 6));
    });
    block_on_fresh_wakers(s.send(Msg::new(5))).unwrap();
    block_on_fresh_wakers(s.send(Msg::new(6))).unwrap();
    t.join().unwrap();
}
fn cancel_recv_future() {
    let (s, r) = kanal::bounded_async::<Msg>(0);
    let s2 = s.clone_sync();
    let t = thread::spawn(move || {
        // may be delivered into the future that is being dropped, or fail when the receiver goes away
        let _ = s2.send_timeout(Msg::new(9), Duration::from_millis(50));
    });
    {
        let mut f = Box::pin(r.recv());
        let (_a, w) = new_waker();
        let mut cx = Context::from_waker(&w);
        let _ = f.as_mut().poll(&mut cx);
        thread::yield_now();
        drop(f);
    }
    drop(r);
    drop(s);
    t.join().unwrap();
}
fn cancel_send_future() {
    let (s, r) = kanal::bounded_async::<Msg>(0);
    let r2 = r.clone_sync();
    let t = thread::spawn(move || {
        let _ = r2.recv_timeout(Duration::from_millis(50));
    });
    {
        let mut f = Box::pin(s.send(Msg::new(3)));
        let (_a, w) = new_waker();
        let mut cx = Context::from_waker(&w);
        let _ = f.as_mut().poll(&mut cx);
        thread::yield_now();
        drop(f);
    }
    drop(s);
    drop(r);
    t.join().unwrap();
}
fn close_races_blocked() {
    let (s, r) = kanal::bounded::<Msg>(0);
    let s2 = s.clone();
    let t1 = thread::spawn(move || {
        let _ = s2.send(Msg::new(1));
    });
    let r2 = r.clone_async();
    let t2 = thread::spawn(move || {
        let _ = block_on(r2.recv());
    });
    thread::yield_now();
    let _ = s.close();
    t1.join().unwrap();
    t2.join().unwrap();
    assert!(r.recv().is_err());
}
fn timeouts() {
    let (s, r) = kanal::bounded::<Msg>(0);
    let t = thread::spawn(move || {
        let _ = s.send_timeout(Msg::new(1), Duration::from_micros(300));
        let mut o = Some(Msg::new(2));
        let _ = s.send_option_timeout(&mut o, Duration::from_micros(300));
    });
    let _ = r.recv_timeout(Duration::from_micros(200));
    let _ = r.recv_timeout(Duration::from_micros(200));
    t.join().unwrap();
}
fn stream_spurious() {
    let (s, r) = kanal::bounded_async::<Msg>(1);
    let s = s.to_sync();
    let t = thread::spawn(move || {
        for i in 0..3 {
            s.send(Msg::new(i)).unwrap();
        }
    });
    let mut st = Box::pin(r.stream());
    let mut got = vec![];
    loop {
        let (a, w) = new_waker();
        let mut cx = Context::from_waker(&w);
        match st.as_mut().poll_next(&mut cx) {
            Poll::Ready(Some(m)) => {
                m.check();
                got.push(m.id)
            }
            Poll::Ready(None) => break,
            Poll::Pending => {
                // spurious poll with the same waker, then wait
                if let Poll::Ready(x) = st.as_mut().poll_next(&mut cx) {
                    match x {
                        Some(m) => got.push(m.id),
                        None => break,
                    }
                    continue;
                }
                while !a.f.swap(false, Ordering::SeqCst) {
                    thread::park();
                }
            }
        }
    }
    assert_eq!(got, vec![0, 1, 2]);
    t.join().unwrap();
}
fn drain_blocked_senders() {
    let (s, r) = kanal::bounded::<Msg>(1);
    let mut ts = vec![];
    for k in 0..3u64 {
        let s = s.clone();
        ts.push(thread::spawn(move || {
            s.send(Msg::new(k)).unwrap();
        }));
    }
    drop(s);
    let mut v = Vec::new();
    let mut n = 0;
    while n < 3 {
        n += r.drain_into(&mut v).unwrap();
        thread::yield_now();
    }
    for m in &v {
        m.check();
    }
    for t in ts {
        t.join().unwrap();
    }
}
#[repr(align(64))]
struct Z64;
fn zst_and_padding() {
    let (s, r) = kanal::bounded::<Z64>(0);
    let t = thread::spawn(move || {
        s.send(Z64).unwrap();
    });
    let z = r.recv().unwrap();
    assert_eq!(&z as *const Z64 as usize % 64, 0);
    t.join().unwrap();
    #[repr(C)]
    struct P {
        a: u8,
        b: u64,
    }
    let (s, r) = kanal::bounded::<P>(0);
    let t = thread::spawn(move || {
        s.send(P { a: 3, b: 4 }).unwrap();
    });
    let p = r.recv().unwrap();
    assert_eq!((p.a, p.b), (3, 4));
    t.join().unwrap();
}

pub const SCENARIOS: &[(&str, fn())] = &[
    ("sync_rendezvous", sync_rendezvous),
    ("sync_mpsc_cap1", sync_mpsc_cap1),
    ("small_payload_paths", small_payload_paths),
    ("async_send_sync_recv", async_send_sync_recv),
    ("async_recv_waker_change", async_recv_waker_change),
    ("async_send_waker_change", async_send_waker_change),
    ("cancel_recv_future", cancel_recv_future),
    ("cancel_send_future", cancel_send_future),
    ("close_races_blocked", close_races_blocked),
    ("timeouts", timeouts),
    ("stream_spurious", stream_spurious),
    ("drain_blocked_senders", drain_blocked_senders),
    ("zst_and_padding", zst_and_padding),
    ("async_recv_busy_poll", async_recv_busy_poll),
    ("async_send_busy_poll", async_send_busy_poll),
];

fn main() {
    let which = std::env::args().nth(1).unwrap_or_else(|| "list".into());
    if which == "list" {
        for (n, _) in SCENARIOS {
            println!("{}", n);
        }
        return;
    }
    let f = SCENARIOS.iter().find(|(n, _)| *n == which).expect("unknown scenario").1;
    f();
    assert_eq!(LIVE.load(Ordering::SeqCst), 0, "a message was leaked or dropped twice");
}
