#!/bin/bash
# sweep.sh <tier> <seed> [seed ...] : every check at several seeds; prints one line per (check, seed); exit 1 if any non-zero exit
TIER=$1; shift
rc=0
for seed in "$@"; do
  for p in C01 C02 C03 C04 C05 C06 C07 C08 C09 C10 C11 C12 C13 C14 C15 C16 C17 C18 C19; do
    out=$(VERIF_SEED=$seed bin/check $p $TIER 2>&1); e=$?
    echo "seed=$seed exit=$e $(echo "$out" | tail -1 | cut -c1-200)"
    if [ $e -ne 0 ]; then rc=1; echo "$out" | grep -E "VIOLATION|signature|harness" | head -5; fi
  done
done
exit $rc
