#!/usr/bin/env python3
"""Regenerates /verif/MANIFEST.json from the table below (keeps it schema-valid)."""
import json, subprocess, os
HERE = os.path.dirname(os.path.dirname(os.path.abspath(__file__)))
hooks = subprocess.run(["git", "-C", "/repo", "log", "--format=%h %s", "--reverse"], capture_output=True, text=True).stdout.splitlines()
hook_commits = [l.split()[0] for l in hooks if "verif hooks" in l]

TRUST = ("sampling over the stated seeds; sequentially consistent executions with a vector-clock happens-before monitor; "
         "trusted: corosensei context switch, the harness executor, lock_api, rustc; kanal default features (async on, std-mutex off)")

# id -> (category, technique, level text, design ref)
CHECKS = {
 "C01": ("exploration", "deterministic simulation: seeded schedules + ledger of payload identities",
         "Seeded random/sticky/PCT schedules over role-separated mpmc workloads mixing every send/receive variant, close, drops, cancellation and spurious polls; every value carries an identity and the ledger decides lost / duplicated / invented / failed-yet-delivered per run.", "4 C01"),
 "C02": ("exploration", "deterministic simulation: real-time order oracle over stamped history",
         "Same simulator; FIFO decided from global event stamps: a value accepted (returned or registered in the wait list) before another send began is never obtained by a receive that completes before the receive of the earlier value begins; positions inside one drain.", "4 C02"),
 "C04": ("exploration", "deterministic simulation: checksummed payloads of 13 size/alignment/drop classes",
         "Every received value is compared bit-for-bit (identity + checksum over all fields, per-run bit mask) for 13 payload classes on every transfer path the scheduler produces.", "4 C04"),
 "C05": ("exploration", "deterministic simulation: drop ledger (+ Miri leak / double-free detection on heap-owning payloads)",
         "Droppable payload classes record every drop with stamp, task and enclosing operation; second drop flagged at once, missing drop at the quiescent end; Option contract of the *_option variants checked per call.", "4 C05"),
 "C06": ("exploration", "deterministic simulation: deadlock / step-bound detection on workloads that terminate by specification",
         "Role-separated workloads terminate in every schedule by specification; the engine reports a run in which no task can run (or the decision bound is exceeded) with the stuck operations and which wakers were woken.", "4 C06"),
 "C07": ("exploration", "deterministic simulation: vector-clock race monitor + waiter lifetime registry",
         "Every atomic is a scheduling point feeding C++20-rule vector clocks; hooked non-atomic accesses to waiter slot, pointer cell and waker are checked FastTrack-style; waiter regions are tracked from publication to the owner's return, peer accesses after that and unordered owner returns are reported.", "4 C07"),
 "C08": ("exploration", "deterministic simulation: counting oracle over stamped history",
         "At every successful send's return stamp: successful sends minus values taken by receive operations already begun never exceeds the capacity; observers (len, capacity, is_full, is_bounded) and unbounded-never-blocks checked on every run.", "4 C08"),
 "C09": ("exploration", "deterministic simulation: mixed sync/async endpoints through every conversion",
         "Workloads forced to have both flavours on each side, handles produced by clone/clone_sync/clone_async/to_*/as_*; delivery, drop, order and progress oracles evaluated on those runs.", "4 C09"),

 "C03": ("exploration", "deterministic simulation + exhaustive search of a reference model's atomic interleavings (explainability)",
         "Small multi-task programs over the whole API under seeded schedules; the observed results must be reproducible by an exhaustive memoised search over the reference channel's atomic steps (register/complete/give-up/cancel) respecting program order.", "4 C03"),
 "C10": ("exploration", "deterministic simulation: close injected at any op boundary, real-time oracle",
         "close() from any handle at any point against blocked, pending, buffered and in-flight operations; at most one Ok; every operation begun after close returned yields the closed result; buffered values destroyed by the time close returns; blocked operations released (hang oracle).", "4 C10"),
 "C11": ("exploration", "deterministic simulation: handle clone/drop injected everywhere, interval-count oracle",
         "Clone/drop of handles of both flavours racing with operations; a disconnect error is accepted only if the other side's handle count can have been zero during the call; after the last handle is certainly gone sends fail / receives drain then report the error.", "4 C11"),
 "C12": ("exploration", "deterministic simulation: interval bounds on observed counts",
         "sender_count/receiver_count observations must lie between the handles certainly alive and possibly alive during the observation; exact when sequential; zero for ever after close.", "4 C12"),
 "C13": ("exploration", "deterministic simulation: virtual clock with jumps, ledger and lifetime monitors (+ Miri on timed scenarios)",
         "Timed operations against peers arriving, handing off, closing or disconnecting around the deadline under three clock policies; Timeout never before the deadline (virtual time), value back/dropped exactly once, never delivered after Timeout, nothing left in the wait list (lifetime monitor), the call returns (hang oracle).", "4 C13"),
 "C14": ("exploration", "deterministic simulation: probes + own-step bound + explainability",
         "try_*/drain never register, wait or park (probes inside kanal); realtime variants return within 64 of their own decisions even with peers frozen inside the critical section; success iff the ledger shows the value moved; results explainable by the reference model.", "4 C14"),
 "C15": ("exploration", "deterministic simulation: cancellation injected at drawn decisions (+ Miri on cancellation scenarios)",
         "Futures dropped never-polled, after k polls, or a drawn number of decisions after Pending while a peer is handing off; ledger (delivered once or dropped once), lifetime monitor (no access to the dropped future), order of remaining waiters.", "4 C15"),
 "C16": ("exploration", "deterministic simulation: harness executor with spurious polls and waker replacement, single futures and several futures per executor",
         "Spurious polls with the same or a fresh waker at any position, re-poll after completion (must panic), streams polled across many waits and after the end; stale-waker hangs, duplicated or invented values, order and end-of-stream stability are reported.", "4 C16"),
 "C17": ("exploration", "deterministic simulation: lock harness with overlap marks, race monitor and try_lock step bound",
         "2-4 tasks contend on the internal lock through lock/try_lock/unlock with a non-atomic read-modify-write inside; harness-level overlap marks, happens-before monitor on the cell and on consecutive critical sections, lost-update check, try_lock returns within 8 own decisions, every lock() returns (hang oracle); parallelism 1 and 4, holder stalled/frozen.", "4 C17"),
 "C18": ("exploration", "deterministic simulation (single task): lock-step comparison with a reference model",
         "Systematic sweep of all call sequences up to length 3 (quick) / 4 (thorough) over a 26-call core alphabet x 4 capacities plus seeded random sequences of length <= 40 over the full alphabet; every return value compared with the reference channel; only the documented panics allowed.", "4 C18"),
 "C19": ("exploration", "deterministic simulation: drain-specific real-time oracle",
         "drain_into against buffered values plus blocked sync and pending async senders, with prior vector contents: count equals appended, prefix untouched, order, nothing that was in the channel before the drain began is left for a receive begun after it returned, never waits.", "4 C19"),
}
NA = {
 "C20": "compile-time fact about trait bounds: there is no schedule, clock, fault or history for a simulator to vary, and the negative half is 'this program must not compile' (needs trait assertions / compile-fail tests, a different technique)",
}
ALL = ["C%02d" % i for i in range(1, 21)]
checks = []
for pid in ALL:
    if pid in CHECKS:
        cat, tech, text, ref = CHECKS[pid]
        checks.append({
            "property_id": pid,
            "quick_cmd": "bin/check %s quick" % pid,
            "thorough_cmd": "bin/check %s thorough" % pid,
            "evidence_file": "/verif/evidence/%s.json" % pid,
            "replay_cmd_template": "bin/check replay {path}",
            "engine": "ksim",
            "level_claimed": {"category": cat, "text": text, "design_ref": "DESIGN.md section " + ref},
            "level_note": TRUST,
            "technique": tech,
        })
na = [{"property_id": p, "reason": NA.get(p, "check not built yet in this revision of /verif (work in progress; see DESIGN.md section 9)")} for p in ALL if p not in CHECKS]
m = {
 "version": 1,
 "setup_cmd": "cd sim && CARGO_NET_OFFLINE=true cargo build --release --offline && cd ../native && (CARGO_NET_OFFLINE=true cargo +nightly miri run --offline -q -- list > /dev/null 2>&1 || true)",
 "hooks": {
   "guard": "--cfg kanal_verif",
   "enable": "the simulator workspace /verif/sim sets rustflags --cfg kanal_verif (.cargo/config.toml) and builds package 'kanal' through a shadow manifest (sim/kanal-shadow/Cargo.toml, [lib] path=/repo/src/lib.rs) that adds the dependency on the simulation runtime; /repo/Cargo.toml only gains a check-cfg lint entry",
   "baseline_off_cmd": "cd /repo && cargo test --workspace --no-fail-fast --offline",
   "source_commits": hook_commits,
   "add_only": True,
 },
 "engines": [
   {"name": "ksim", "path": "/verif/sim", "serves_properties": sorted(CHECKS.keys()),
    "kind_free_text": "deterministic simulator: all tasks of a run are corosensei coroutines on one OS thread, a seeded scheduler (uniform / sticky / PCT + stall, freeze-in-critical-section, spurious-wake overlays) decides at every shimmed atomic / park / yield / clock read; virtual clock; harness executor with spurious polls, waker replacement and cancellation; replay files carry the explicit decision stream"},
   {"name": "miri", "path": "/verif/native", "serves_properties": ["C04", "C05", "C07", "C13", "C15"],
    "kind_free_text": "second, hook-free engine: 27 fixed multi-threaded scenarios (C07 runs all of them, C04/C05/C13/C15 the ones that speak of their property) against the unmodified kanal (guard off, real std threads, owning payloads) under cargo +nightly miri with many seeds (Miri's scheduler, weak-memory emulation and clock are functions of the seed); quick 32 seeds, thorough 512 seeds per scenario; replay = (scenario, seed, flags)"},
 ],
 "checks": checks,
 "not_applicable": na,
 "notes": "Every check rebuilds the simulator from /repo's working tree (cargo fingerprints /repo/src through the shadow manifest). Exit 2 = harness error (build failure, replay divergence, worker crash).",
}
json.dump(m, open(os.path.join(HERE, "MANIFEST.json"), "w"), indent=1)
print("wrote MANIFEST.json with", len(checks), "checks,", len(na), "not claimed")
