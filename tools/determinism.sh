#!/bin/bash
# Proof of determinism: every run index is executed (a) inside one long-lived process and (b) in 16 separate
# processes started at different offsets; the per-run hashes (event log, history, clock, verdict text) must agree.
# usage: tools/determinism.sh <runs per property> [PROP ...]      exit 0 = identical, 2 = divergence (harness error)
N=${1:-20000}; shift
PROPS=${@:-C01 C02 C03 C04 C05 C06 C07 C08 C09 C10 C11 C12 C13 C14 C15 C16 C17 C18 C19}
K=/verif/sim/target/release/ksim
T=$(mktemp -d /verif/sim/target/det.XXXX)
rc=0
for p in $PROPS; do
  ( $K selftest determinism $p $N 0 > $T/a.$p ) &
  per=$((N/16))
  for w in $(seq 0 15); do ( $K selftest determinism $p $per $((w*per)) > $T/b.$p.$w ) & done
  wait
  cat $T/b.$p.* | sort -n > $T/b.$p
  head -n $((per*16)) $T/a.$p | sort -n > $T/a.$p.s
  if cmp -s $T/a.$p.s $T/b.$p; then echo "$p: $((per*16)) runs identical across process layouts"; else echo "$p: DIVERGENCE"; diff $T/a.$p.s $T/b.$p | head -5; rc=2; fi
done
rm -rf $T
exit $rc
