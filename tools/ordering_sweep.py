#!/usr/bin/env python3
"""Systematic memory-ordering sweep: every non-Relaxed ordering argument in src/signal.rs and src/mutex.rs is
weakened to Relaxed (one at a time) and every fence(Acquire) line is removed (one at a time); C07 and C17 (quick,
reduced runs) say whether the hole is seen. Applies edits to /repo transiently."""
import os as _os
_os.environ["VERIF_NO_EVIDENCE"]="1"
import subprocess, re, json, sys
def sh(c): return subprocess.run(c, shell=True, capture_output=True, text=True)
assert sh("git -C /repo status --porcelain").stdout.strip()==""
results=[]
try:
    for f in ["src/signal.rs","src/mutex.rs"]:
        src=open("/repo/"+f).read()
        lines=src.split("\n")
        sites=[]
        for i,l in enumerate(lines):
            if "cfg(kanal_verif)" in l or "crate::verif" in l: continue
            for m in re.finditer(r"Ordering::(Acquire|Release|AcqRel|SeqCst)", l):
                sites.append((i,m.start(),m.end(),"weaken"))
            if re.match(r"\s*fence\(Ordering::Acquire\);\s*$", l):
                sites.append((i,0,0,"drop-fence"))
        for (i,a,b,kind) in sites:
            new=list(lines)
            if kind=="weaken": new[i]=lines[i][:a]+"Ordering::Relaxed"+lines[i][b:]
            else: new[i]=lines[i].replace("fence(Ordering::Acquire);","")
            open("/repo/"+f,"w").write("\n".join(new))
            comp=sh("cd /repo && cargo build --offline 2>&1 | tail -2")
            r={"file":f,"line":i+1,"kind":kind,"text":lines[i].strip()}
            if "error" in comp.stdout:
                r["result"]="does not compile"
            else:
                caught=[]
                for p in ["C07","C17"]:
                    c=sh("cd /verif && VERIF_RUNS=300000 VERIF_MIRI_SEEDS=32 timeout 900 bin/check %s quick"%p)
                    sig=re.findall(r"signature=(\S+)", c.stdout)
                    if c.returncode==1: caught.append((p,sig[:2]))
                r["result"]=caught
            results.append(r)
            print(r); sys.stdout.flush()
            open("/repo/"+f,"w").write(src)
finally:
    sh("git -C /repo checkout -- .")
json.dump(results,open("/verif/mutants/ordering_sweep.json","w"),indent=1)
