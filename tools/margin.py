#!/usr/bin/env python3
"""For every seeded change and planned mutant: the smallest run index at which the claimed property's quick check
reports a violation (how much margin the 1M-run quick tier has). Applies patches to /repo transiently."""
import os as _os
_os.environ["VERIF_NO_EVIDENCE"]="1"
import subprocess, json, glob, os, re, sys
def sh(c): return subprocess.run(c, shell=True, capture_output=True, text=True)
REPO=os.environ.get("MUT_REPO","/repo"); VERIF=os.environ.get("MUT_VERIF","/verif"); OUT=os.environ.get("MUT_OUT","/verif/seeded/margins.json")
items=[]
for d in sorted(glob.glob(VERIF+"/seeded/*/")):
    m=json.load(open(d+"meta.json")); items.append((os.path.basename(d.rstrip("/")), d+"patch.diff", m["breaks"]))
mm=json.load(open(VERIF+"/mutants/mutants.json"))
for n,v in mm.items(): items.append((n, VERIF+"/mutants/%s.diff"%n, v["expected_catchers"]))
only=sys.argv[1:]
out={}
assert sh("git -C %s status --porcelain"%REPO).stdout.strip()==""
try:
    for name,patch,props in items:
        if only and name not in only: continue
        if sh("git -C %s apply %s"%(REPO,patch)).returncode!=0: print(name,"patch failed"); continue
        res={}
        for p in props:
            c=sh("cd %s && VERIF_REPO=%s timeout 900 bin/check %s quick"%(VERIF,REPO,p))
            idx=[int(x) for x in re.findall(r"signature=\S+ index=(\d+)", c.stdout)]
            res[p]=(c.returncode, min(idx) if idx else None)
        out[name]=res
        print("%-45s %s"%(name,res)); sys.stdout.flush()
        sh("git -C %s checkout -- ."%REPO)
        json.dump(out,open(OUT,"w"),indent=1)
finally:
    sh("git -C %s checkout -- ."%REPO)
json.dump(out,open(OUT,"w"),indent=1)
