#!/usr/bin/env python3
"""Builds /verif/benign/<name>.diff from the edit table below, against /repo HEAD, in a scratch clone.
These are behaviour-preserving changes (refactors, tuning, stronger orderings, code motion that no property
can observe): every check must stay silent on them (tools/run_benign.py)."""
import subprocess, os, sys, shutil, json, re
SCR = "/tmp/kben"
OUT = "/verif/benign"
def sh(*a, **k): return subprocess.run(a, capture_output=True, text=True, **k)
shutil.rmtree(SCR, ignore_errors=True)
sh("git", "clone", "-q", "/repo", SCR)
os.makedirs(OUT, exist_ok=True)

# (name, why it preserves every property, [(file, old, new, count)])
B = []
def b(name, why, edits): B.append((name, why, edits))

b("b01_spin_counts_x4", "longer optimistic spinning before parking / sleeping: tuning only",
  [("src/signal.rs", "for _ in 0..256 {", "for _ in 0..1024 {", 1),
   ("src/signal.rs", "for _ in 0..32 {", "for _ in 0..128 {", 2)])
b("b02_all_seqcst", "every atomic ordering strengthened to SeqCst",
  [("src/signal.rs", "Ordering::Relaxed", "Ordering::SeqCst", -1),
   ("src/signal.rs", "Ordering::Acquire", "Ordering::SeqCst", -1),
   ("src/signal.rs", "Ordering::Release", "Ordering::SeqCst", -1),
   ("src/mutex.rs", "Ordering::Acquire, Ordering::Relaxed", "Ordering::SeqCst, Ordering::SeqCst", 1),
   ("src/mutex.rs", "Ordering::Release", "Ordering::SeqCst", 1)])
b("b03_ttas_try_lock", "test-and-test-and-set: a relaxed load before the CAS in try_lock",
  [("src/mutex.rs", "        self.locked\n            .compare_exchange(false, true, Ordering::Acquire, Ordering::Relaxed)\n            .is_ok()",
    "        if self.locked.load(Ordering::Relaxed) {\n            return false;\n        }\n        self.locked\n            .compare_exchange(false, true, Ordering::Acquire, Ordering::Relaxed)\n            .is_ok()", 1)])
b("b04_lock_backoff_tuning", "different spin / yield / sleep mix on the contended lock path",
  [("src/backoff.rs", "    const NO_YIELD: usize = 1;\n    const SPIN_YIELD: usize = 1;\n    const OS_YIELD: usize = 0;\n    const ZERO_SLEEP: usize = 2;\n    const SPINS: u32 = 8;",
    "    const NO_YIELD: usize = 2;\n    const SPIN_YIELD: usize = 2;\n    const OS_YIELD: usize = 1;\n    const ZERO_SLEEP: usize = 1;\n    const SPINS: u32 = 16;", 1),
   ("src/backoff.rs", "        sleep(Duration::from_nanos(1 << 20));", "        sleep(Duration::from_nanos(1 << 18));", 1)])
b("b05_recv_timeout_disconnect_first", "recv_timeout tests 'no sender left' before 'deadline already passed': both answers are allowed when both hold",
  [("src/lib.rs", "            if Instant::now() > deadline {\n                return Err(ReceiveErrorTimeout::Timeout);\n            }\n            if internal.send_count == 0 {\n                return Err(ReceiveErrorTimeout::SendClosed);\n            }",
    "            if internal.send_count == 0 {\n                return Err(ReceiveErrorTimeout::SendClosed);\n            }\n            if Instant::now() > deadline {\n                return Err(ReceiveErrorTimeout::Timeout);\n            }", 1)])
b("b06_deadline_ge", "the deadline counts as passed when the clock equals it",
  [("src/lib.rs", "            if Instant::now() > deadline {", "            if Instant::now() >= deadline {", 1)])
b("b07_close_moves_buffer_out", "close() moves the buffer out under the lock and destroys the values after releasing it, still before returning",
  [("src/lib.rs", "            internal.terminate_signals();\n            internal.queue.clear();\n            Ok(())",
    "            internal.terminate_signals();\n            let old = core::mem::take(&mut internal.queue);\n            drop(internal);\n            drop(old);\n            Ok(())", 1)])
b("b08_cancel_position", "cancel_*_signal written with iter().position",
  [("src/internal.rs", "        if !self.recv_blocking {\n            for (i, send) in self.wait_list.iter().enumerate() {\n                if send.eq(sig) {\n                    self.wait_list.remove(i);\n                    return true;\n                }\n            }\n        }\n        false",
    "        if !self.recv_blocking {\n            if let Some(i) = self.wait_list.iter().position(|s| s.eq(sig)) {\n                self.wait_list.remove(i);\n                return true;\n            }\n        }\n        false", 1),
   ("src/internal.rs", "        if self.recv_blocking {\n            for (i, recv) in self.wait_list.iter().enumerate() {\n                if recv.eq(sig) {\n                    self.wait_list.remove(i);\n                    return true;\n                }\n            }\n        }\n        false",
    "        if self.recv_blocking {\n            if let Some(i) = self.wait_list.iter().position(|s| s.eq(sig)) {\n                self.wait_list.remove(i);\n                return true;\n            }\n        }\n        false", 1)])
b("b09_initial_capacities", "lazy buffer allocation and a larger initial wait list",
  [("src/internal.rs", "        let wait_list_size = if capacity == 0 { 8 } else { 4 };", "        let wait_list_size = if capacity == 0 { 32 } else { 16 };", 1),
   ("src/internal.rs", "            queue: VecDeque::with_capacity(capacity),", "            queue: VecDeque::with_capacity(if bounded { capacity.min(2) } else { 0 }),", 1)])
b("b10_async_wait_sleeps_longer", "async_blocking_wait backs off with longer sleeps",
  [("src/signal.rs", "        let mut sleep_time: u64 = 1 << 10;", "        let mut sleep_time: u64 = 1 << 12;", 1),
   ("src/signal.rs", "            if sleep_time < (1 << 18) {", "            if sleep_time < (1 << 20) {", 1)])
b("b11_terminate_in_reverse", "waiters are released newest first when the channel is torn down (no property orders releases)",
  [("src/internal.rs", "        for t in self.wait_list.iter() {\n            // Safety: it's safe to terminate owned signal once\n            unsafe { t.terminate() }\n        }",
    "        for t in self.wait_list.iter().rev() {\n            // Safety: it's safe to terminate owned signal once\n            unsafe { t.terminate() }\n        }", 1)])
b("b12_no_parallelism_cache", "available_parallelism is asked every time",
  [("src/backoff.rs", "    let mut p = PARALLELISM.load(Ordering::Relaxed);", "    let mut p = 0 * PARALLELISM.load(Ordering::Relaxed);", 1)])
b("b13_park_with_timeout", "the parked waiter wakes up by itself every millisecond and re-checks (spurious wake-ups are tolerated by design)",
  [("src/signal.rs", "                        std::thread::park();", "                        std::thread::park_timeout(Duration::from_millis(1));", 1)])
b("b14_wait_timeout_double_clock_read", "the timed wait reads the clock twice per iteration",
  [("src/signal.rs", "        while Instant::now() < until {", "        while Instant::now() < until && Instant::now() < until {", 1)])
b("b15_send_unlocks_before_building_signal_result", "send(): the closed test is done with the lock released a little earlier / later: drop of the guard moved after reading both counts",
  [("src/lib.rs", "    pub fn send(&self, data: T) -> Result<(), SendError> {\n        let mut internal = acquire_internal(&self.internal);\n        if internal.recv_count == 0 {\n            let send_count = internal.send_count;\n            // Avoid wasting lock time on dropping failed send object\n            drop(internal);\n            if send_count == 0 {\n                return Err(SendError::Closed);\n            }\n            return Err(SendError::ReceiveClosed);\n        }",
    "    pub fn send(&self, data: T) -> Result<(), SendError> {\n        let mut internal = acquire_internal(&self.internal);\n        if internal.recv_count == 0 {\n            let err = if internal.send_count == 0 { SendError::Closed } else { SendError::ReceiveClosed };\n            drop(internal);\n            drop(data);\n            return Err(err);\n        }", 1)])
b("b16_wake_clone_thread_first", "Signal::wake clones the thread handle into a local before the CAS fails... no: only renames a local and adds a spin hint after unpark",
  [("src/signal.rs", "                    thread.unpark();", "                    thread.unpark();\n                    std::hint::spin_loop();", 1)])
b("b18_len_observers_restructured", "is_full / is_empty written through len()",
  [("src/lib.rs", "            let internal = acquire_internal(&self.internal);\n            internal.capacity == internal.queue.len()", "            let internal = acquire_internal(&self.internal);\n            let (c, l) = (internal.capacity, internal.queue.len());\n            drop(internal);\n            c == l", 1)])

# --- variations suggested by an independent audit of the oracles (each made one of the checks raise a false alarm
#     before the oracle was corrected; kept so that it cannot come back)
b("audit_1_wait_timeout_spin_256", "the timed wait spins 256 times before its first clock read, like the untimed wait",
  [("src/signal.rs", "        if get_parallelism() > 1 {\n            #[cfg(kanal_verif)]\n            let mut verif_knob = crate::verif::rt::SpinKnob::new(1);\n            for _ in 0..32 {",
    "        if get_parallelism() > 1 {\n            #[cfg(kanal_verif)]\n            let mut verif_knob = crate::verif::rt::SpinKnob::new(1);\n            for _ in 0..256 {", 1)])
b("audit_2_released_future_reports_disconnect", "a pending future released by a disconnect reports the accurate error variant (ReceiveClosed / SendClosed) instead of Closed",
  [("src/future.rs", "                        Poll::Ready(Err(SendError::Closed))\n                    }\n                }\n                Poll::Pending => {",
    "                        Poll::Ready(Err(if acquire_internal(this.internal).send_count != 0 { SendError::ReceiveClosed } else { SendError::Closed }))\n                    }\n                }\n                Poll::Pending => {", 1),
   ("src/future.rs", "                            Poll::Ready(Err(ReceiveError::Closed))\n                        }\n                    }\n                    Poll::Pending => {",
    "                            Poll::Ready(Err(if acquire_internal(this.internal).recv_count != 0 { ReceiveError::SendClosed } else { ReceiveError::Closed }))\n                        }\n                    }\n                    Poll::Pending => {", 1)])
b("audit_3_drain_walks_wait_list_directly", "drain_into takes the waiting senders by draining the wait list itself instead of calling next_send (no helper method, hence no helper hook, is involved)",
  [("src/lib.rs", "            while let Some(p) = internal.next_send() {\n                // Safety: it's safe to receive from owned signal once\n                unsafe { vec.push(p.recv()) }\n            }\n            Ok(required_cap)",
    "            if !internal.recv_blocking {\n                for p in internal.wait_list.drain(..) {\n                    // Safety: it's safe to receive from owned signal once\n                    unsafe { vec.push(p.recv()) }\n                }\n            }\n            Ok(required_cap)", 1)])
b("audit_3b_close_terminates_inline", "close() releases the waiters itself instead of calling terminate_signals",
  [("src/lib.rs", "            internal.terminate_signals();\n            internal.queue.clear();\n            Ok(())",
    "            for t in internal.wait_list.iter() {\n                // Safety: it's safe to terminate owned signal once\n                unsafe { t.terminate() }\n            }\n            internal.wait_list.clear();\n            internal.queue.clear();\n            Ok(())", 1)])
b("audit_4_panic_wording", "the documented panics use another wording",
  [("src/future.rs", 'panic!("polled after result is already returned")', 'panic!("future polled again after it completed")', 2)])
b("audit_6_buffer_discarded_with_last_receiver", "the buffered values are destroyed as soon as the last receiver is gone (nobody can receive them any more)",
  [("src/lib.rs", "            if internal.recv_count == 0 && internal.send_count != 0 {\n                internal.terminate_signals();\n            }",
    "            if internal.recv_count == 0 && internal.send_count != 0 {\n                internal.terminate_signals();\n                internal.queue.clear();\n            }", 2)])
b("audit_8_try_lock_retries", "the non-blocking acquisition retries a bounded number of times (100) before giving up",
  [("src/internal.rs", "    #[cfg(not(feature = \"std-mutex\"))]\n    return internal.try_lock();",
    "    #[cfg(not(feature = \"std-mutex\"))]\n    {\n        for _ in 0..100 {\n            if let Some(g) = internal.try_lock() {\n                return Some(g);\n            }\n            std::hint::spin_loop();\n        }\n        return None;\n    }", 1)])

meta = {}
for name, why, edits in B:
    sh("git", "-C", SCR, "checkout", "-q", "--", ".")
    ok = True
    for (f, old, new, count) in edits:
        p = os.path.join(SCR, f)
        s = open(p).read()
        n = s.count(old)
        if n == 0 or (count > 0 and n != count):
            print("!! %s: %r occurs %d times in %s (expected %s)" % (name, old[:50], n, f, count)); ok = False; break
        s = s.replace(old, new)
        open(p, "w").write(s)
    if not ok:
        continue
    d = sh("git", "-C", SCR, "diff").stdout
    c = subprocess.run("cd %s && cargo build --offline 2>&1 | tail -3" % SCR, shell=True, capture_output=True, text=True).stdout
    if "error" in c:
        print("!! %s does not compile:\n%s" % (name, c)); continue
    open(os.path.join(OUT, name + ".diff"), "w").write(d)
    meta[name] = {"why_behaviour_preserving": why}
    print("ok", name)
old = json.load(open(os.path.join(OUT, "benign.json"))) if os.path.exists(os.path.join(OUT, "benign.json")) else {}
old.update(meta)
json.dump(old, open(os.path.join(OUT, "benign.json"), "w"), indent=1)
shutil.rmtree(SCR, ignore_errors=True)
