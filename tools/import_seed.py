#!/usr/bin/env python3
"""import_seed.py <PROP> <k> : verifies /tmp/seed/out/<PROP>/<k> in a scratch worktree and, if confirmed, copies it to
/verif/seeded/<PROP>-<k>/ with meta.json."""
import sys, subprocess, json, os, shutil
prop, k = sys.argv[1], sys.argv[2]
src = "/tmp/seed/out/%s/%s" % (prop, k)
mode = sys.argv[3] if len(sys.argv) > 3 else "native"
r = subprocess.run(["/verif/tools/verify_seed.sh", src, mode], capture_output=True, text=True)
line = [l for l in r.stdout.splitlines() if l.startswith("{")][-1]
v = json.loads(line)
ok = v["applies"] == "ok" and v["suite_with_patch"] == "pass" and v["demo_without_patch"] == "pass" and v["demo_with_patch"] == "fail"
print(prop, k, "CONFIRMED" if ok else "REJECTED", v)
if not ok:
    sys.exit(1)
dst = "/verif/seeded/%s-%s" % (prop, k)
os.makedirs(dst, exist_ok=True)
for f in ["patch.diff", "demo.rs", "notes.md"]:
    shutil.copy(os.path.join(src, f), os.path.join(dst, f))
notes = open(os.path.join(src, "notes.md")).read()
import re
first = notes.splitlines()[0] if notes else ""
perprop = re.match(r"^R[5-9]-C\d\d$", prop) is not None
base = prop[3:] if perprop else prop
breaks = re.findall(r"C\d\d", first) if first.upper().startswith("BREAKS") else [base]
if not breaks: breaks = [base]
meta = {
    "id": "%s-%s" % (prop, k),
    "breaks": breaks,
    "source": ("round-%s sub-agent that saw only the text of property %s (asked for three kinds of change: two cooperating sites / multi-step sequence or rare API combination or unusual type / interleaving or fault at a particular point) and its own scratch worktree of /repo (nothing from /verif)" % (prop[1], base)) if perprop else ("sub-agent that saw only the text of property %s and its own scratch worktree of /repo (nothing from /verif)" % prop) if prop.startswith("C") else ("round-%s sub-agent that saw" % (prop[1] if prop[0]=="R" and prop[1].isdigit() else "2")) + "  the texts of properties C01-C19, a focus area of the code and its own scratch worktree of /repo (nothing from /verif)",
    "needs_to_manifest": notes[:1200],
    "verified_by_me": {
        "demo_mode": mode,
        "how": "tools/verify_seed.sh in a scratch worktree of /repo HEAD (outside /repo and /verif): git apply; cargo test --offline (pinned suite, guard off) with the patch; demo as tests/demo_seed.rs with and without the patch",
        "patch_applies": True, "suite_passes_with_patch": True, "demo_passes_without_patch": True, "demo_fails_with_patch": True,
    },
}
json.dump(meta, open(os.path.join(dst, "meta.json"), "w"), indent=1)
