#!/usr/bin/env python3
"""Writes /verif/seeded/SUMMARY.md: one line per independently written change: what it breaks, what it needs,
which of the claimed checks caught it in the quick tier and at which run index the first report came."""
import json, glob, os
marg = json.load(open("/verif/seeded/margins.json")) if os.path.exists("/verif/seeded/margins.json") else {}
res = json.load(open("/verif/seeded/results.json")) if os.path.exists("/verif/seeded/results.json") else {}
rows = []
for d in sorted(glob.glob("/verif/seeded/*/")):
    name = os.path.basename(d.rstrip("/"))
    m = json.load(open(d + "meta.json"))
    notes = open(d + "notes.md").read().splitlines()
    title = next((l for l in notes if l.startswith("#")), "").lstrip("# ").strip()
    if not title:
        title = next((l for l in notes[1:] if l.strip()), "")[:140]
    mg = marg.get(name, {})
    caught = ["%s (run %s)" % (p, v[1]) for p, v in mg.items() if v[0] == 1]
    missed = [p for p, v in mg.items() if v[0] != 1]
    if not mg and name in res:
        caught = res[name].get("caught_by", [])
    rows.append("| %s | %s | %s | %s | %s |" % (name, ", ".join(m["breaks"]), title[:150].replace("|", "/"), ", ".join(caught) or "—", ", ".join(missed) or ""))
out = ["# Independently written breaking changes (sub-agents; property text only, own worktree, nothing from /verif)", "",
       "Each was confirmed by me in a scratch worktree: the patch applies, the pinned suite passes with it (guard off), the demonstration fails with it and passes without it (`tools/verify_seed.sh`). `caught by` = quick tier of the named check(s) exits 1 with the patch applied; the run index of the first report shows the margin inside the 1 000 000-run budget.", "",
       "| id | breaks (as claimed) | change | caught by (first report at run) | claimed but not caught |", "|---|---|---|---|---|"] + rows
open("/verif/seeded/SUMMARY.md", "w").write("\n".join(out) + "\n")
print(len(rows), "rows")
