#!/usr/bin/env python3
"""Systematic small-mutation sweep of kanal's sources (sensitivity self-test).
  mutation_sweep.py list                      -> prints the mutants (file:line operator before -> after), one per line
  mutation_sweep.py run <from> <to> <outfile> -> for mutants [from,to): apply to $MUT_REPO (default /repo), build guard-off,
        run the checks (reduced runs, cheapest likely catchers first, stop at the first that reports), record, revert.
Operators: relational flips, && <-> ||, dropped negation, true <-> false, deleted statements (drop / clear / push /
count updates / terminate / wake / forget / state changes), push_back <-> push_front, pop_front <-> pop_back,
send_count <-> recv_count, UNLOCKED <-> TERMINATED, +1 <-> -1 on counts. Hook lines, comments and doc lines are skipped."""
import re, sys, os, subprocess, json, time
os.environ["VERIF_NO_EVIDENCE"] = "1"
REPO = os.environ.get("MUT_REPO", "/repo")
VERIF = os.environ.get("MUT_VERIF", "/verif")
FILES = ["src/lib.rs", "src/internal.rs", "src/signal.rs", "src/future.rs", "src/pointer.rs", "src/mutex.rs", "src/backoff.rs"]
def sh(c, **k): return subprocess.run(c, shell=True, capture_output=True, text=True, **k)

def code_lines(path):
    lines = open(path).read().split("\n")
    skip_next = False
    in_verif_block = 0
    out = []
    for i, l in enumerate(lines):
        s = l.strip()
        if skip_next:
            skip_next = False
            # a hook statement or the opening of a hook block
            if s.endswith("{"):
                in_verif_block = 1
            continue
        if in_verif_block:
            in_verif_block += s.count("{") - s.count("}")
            if in_verif_block <= 0: in_verif_block = 0
            continue
        if "cfg(kanal_verif)" in s or "cfg(all(kanal_verif" in s:
            skip_next = True
            continue
        if s.startswith("//") or s.startswith("#[") or s.startswith("#![") or "crate::verif" in s or "verif_" in s:
            continue
        if "macro_rules!" in s or s.startswith("use ") or s.startswith("pub use"):
            continue
        out.append(i)
    return lines, out

def mutants():
    ms = []
    for f in FILES:
        lines, idx = code_lines(os.path.join(REPO, f))
        for i in idx:
            l = lines[i]
            code = l.split("//")[0]
            def add(op, new):
                if new != l: ms.append((f, i, op, l, new))
            # relational operators (not in generics / arrows / shifts)
            for m in re.finditer(r"(?<![<>=!\-])(<=|>=|==|!=|<|>)(?![<>=])", code):
                tok = m.group(1)
                before = code[:m.start()]
                if tok in "<>" and (re.search(r"[A-Za-z_:)]\s*$", before) and not re.search(r"\)\s*$|\w\s+$", before)):
                    continue  # generic bracket
                if tok in "<>" and ("->" in code[max(0,m.start()-1):m.end()+1] or "=>" in code[max(0,m.start()-1):m.end()+1]):
                    continue
                if tok in "<>" and not re.search(r"\s$", before):
                    continue
                rep = {"<": "<=", "<=": "<", ">": ">=", ">=": ">", "==": "!=", "!=": "=="}[tok]
                add("rel %s->%s" % (tok, rep), l[:m.start()] + rep + l[m.end():])
            for m in re.finditer(r"&&|\|\|", code):
                rep = "||" if m.group(0) == "&&" else "&&"
                add("bool %s->%s" % (m.group(0), rep), l[:m.start()] + rep + l[m.end():])
            for m in re.finditer(r"(?<![=!<>])!(?=[a-z(])", code):
                if "!(" in code[m.start():m.start()+2] and re.search(r"[a-z_]!$", code[:m.start()+1]): continue
                if re.search(r"[a-z_]$", code[:m.start()]): continue  # macro call
                add("neg dropped", l[:m.start()] + l[m.end():])
            for m in re.finditer(r"\b(true|false)\b", code):
                rep = "false" if m.group(1) == "true" else "true"
                add("lit %s->%s" % (m.group(1), rep), l[:m.start()] + rep + l[m.end():])
            m = re.match(r"^(\s*(?:\} else )?if )(?!let )(.*) \{\s*$", code)
            if m and "SECOND" in os.environ.get("SWEEP_OPS", "SECOND"):
                add("if negated", m.group(1) + "!(" + m.group(2) + ") {")
            s = code.strip()
            if re.match(r"^(drop\(internal\);|internal\.queue\.clear\(\);|internal\.terminate_signals\(\);|self\.wait_list\.clear\(\);|forget\(.*\);|drop\(.*\);|thread\.unpark\(\);|w\.wake\(\);|this\.state = .*;|self\.state = .*;|.*\.(send_count|recv_count) (\+|-)= 1;|.*\.(send_count|recv_count) = 0;|self\.recv_blocking = .*;|.*drop_local_data\(\);|.*register_waker\(.*\);|.*set_ptr\(.*\);|fence\(Ordering::Acquire\);|.*assume_init_drop\(\).*|.*load_and_drop\(\).*)$", s):
                add("stmt deleted", re.sub(r"\S.*$", "();" if not s.startswith("unsafe") else "();", l, count=1))
            for a, b in [("push_back", "push_front"), ("pop_front", "pop_back"), ("send_count", "recv_count"), ("recv_count", "send_count"), ("UNLOCKED", "TERMINATED"), ("TERMINATED", "UNLOCKED"), ("+= 1", "-= 1"), ("-= 1", "+= 1"), ("next_send()", "next_recv()"), ("next_recv()", "next_send()"), ("LOCKED_STARVATION", "LOCKED")]:
                for m in re.finditer(re.escape(a), code):
                    if a == "LOCKED" : continue
                    add("swap %s->%s" % (a, b), l[:m.start()] + b + l[m.end():])
    # de-duplicate
    seen = set(); out = []
    for m in ms:
        k = (m[0], m[1], m[4])
        if k in seen: continue
        seen.add(k); out.append(m)
    return out

ORDER = ["C18", "C03", "C01", "C06", "C05", "C13", "C15", "C16", "C10", "C11", "C12", "C14", "C19", "C08", "C02", "C09", "C04", "C07", "C17"]
def main():
    ms = mutants()
    if sys.argv[1] == "list":
        for k, (f, i, op, old, new) in enumerate(ms):
            print("%4d %s:%d [%s] %s  =>  %s" % (k, f, i + 1, op, old.strip()[:70], new.strip()[:70]))
        print(len(ms), "mutants")
        return
    a, b, outfile = int(sys.argv[2]), int(sys.argv[3]), sys.argv[4]
    res = json.load(open(outfile)) if os.path.exists(outfile) else {}
    env = "VERIF_RUNS=%s VERIF_NO_MIRI=1 VERIF_REPO=%s" % (os.environ.get("SWEEP_RUNS", "150000"), REPO)
    for k in range(a, min(b, len(ms))):
        f, i, op, old, new = ms[k]
        key = "%s:%d %s | %s" % (f, i + 1, op, new.strip())
        if key in res: continue
        p = os.path.join(REPO, f)
        src = open(p).read()
        lines = src.split("\n"); lines[i] = new
        open(p, "w").write("\n".join(lines))
        r = {"k": k, "old": old.strip(), "new": new.strip()}
        try:
            c = sh("cd %s && cargo build --offline 2>&1 | tail -3" % REPO)
            if "error" in c.stdout:
                r["result"] = "does not compile"
            else:
                r["caught_by"] = None
                t0 = time.time()
                for prop in ORDER:
                    c = sh("cd %s && %s timeout 600 bin/check %s quick" % (VERIF, env, prop))
                    if c.returncode == 1:
                        sig = re.findall(r"signature=(\S+)", c.stdout)
                        r["caught_by"] = prop; r["sig"] = sig[:1]; break
                    if c.returncode == 2:
                        r.setdefault("harness", []).append(prop)
                        if "failed" in c.stderr and "building the simulator" in c.stderr:
                            r["result"] = "does not compile with hooks"; break
                r["s"] = round(time.time() - t0, 1)
        finally:
            open(p, "w").write(src)
        res[key] = r
        print(k, key[:110], "->", r.get("result") or r.get("caught_by"), r.get("sig", ""), flush=True)
        json.dump(res, open(outfile, "w"), indent=1)
main()
