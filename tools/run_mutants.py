#!/usr/bin/env python3
"""Sensitivity self-test: applies each patch in /verif/mutants (or /verif/seeded/*/patch.diff with --seeded)
to /repo, runs the pinned suite with the guard off and the named checks, and reverts. Never leaves /repo dirty.
usage: run_mutants.py [--seeded|--benign] [--all-checks] [name ...]
--benign: applies /verif/benign/*.diff (behaviour-preserving changes) and runs EVERY check: each must exit 0."""
import os as _os
_os.environ["VERIF_NO_EVIDENCE"]="1"
import subprocess, json, os, sys, time, glob
def sh(cmd, **k): return subprocess.run(cmd, shell=True, capture_output=True, text=True, **k)
REPO = os.environ.get("MUT_REPO", "/repo")
VERIF = os.environ.get("MUT_VERIF", "/verif")
ISGIT = os.path.exists(os.path.join(REPO, ".git"))
def revert(patch=None):
    if ISGIT: sh("git -C %s checkout -- ." % REPO)
    elif patch: sh("cd %s && git apply -R %s" % (REPO, patch))
args = [a for a in sys.argv[1:] if not a.startswith("--")]
seeded = "--seeded" in sys.argv
benign = "--benign" in sys.argv
allchecks = "--all-checks" in sys.argv or benign
nosuite = "--no-suite" in sys.argv
ALL = [c["property_id"] for c in json.load(open(os.path.join(VERIF, "MANIFEST.json")))["checks"]]
items = []
if benign:
    meta = json.load(open(os.path.join(VERIF, "benign/benign.json")))
    for name in sorted(meta):
        items.append((name, os.path.join(VERIF, "benign/%s.diff" % name), []))
elif seeded:
    for d in sorted(glob.glob(os.path.join(VERIF, "seeded/*/"))):
        name = os.path.basename(d.rstrip("/"))
        meta = json.load(open(d + "meta.json"))
        items.append((name, d + "patch.diff", meta.get("breaks", []) if isinstance(meta.get("breaks"), list) else [meta.get("breaks")]))
else:
    meta = json.load(open(os.path.join(VERIF, "mutants/mutants.json")))
    for name, mm in meta.items():
        items.append((name, os.path.join(VERIF, "mutants/%s.diff" % name), mm["expected_catchers"]))
if args:
    items = [i for i in items if i[0] in args]
assert (not ISGIT) or sh("git -C %s status --porcelain" % REPO).stdout.strip() == "", "repo is dirty"
results = {}
try:
    for name, patch, props in items:
        r = {"suite": None, "checks": {}}
        a = sh("cd %s && git apply %s" % (REPO, patch))
        if a.returncode != 0:
            r["error"] = "patch does not apply: " + a.stderr[:200]; results[name] = r; print(name, r["error"]); continue
        b = sh("cd %s && cargo build --offline 2>&1 | tail -3" % REPO)
        if "error" in b.stdout:
            r["error"] = "does not compile guard-off"; results[name] = r; print(name, r["error"]); revert(patch); continue
        if not nosuite:
            t = sh("cd " + REPO + " && timeout 90 cargo test --offline 2>&1 | grep -E '^test result' ")
            r["suite"] = "pass" if (t.stdout.count("test result") >= 3 and "failed" in t.stdout and all(" 0 failed" in l for l in t.stdout.splitlines())) else "FAIL"
        for p in (ALL if allchecks else props):
            if p not in ALL: continue
            t0 = time.time()
            c = sh("cd %s && VERIF_REPO=%s timeout 900 bin/check %s quick" % (VERIF, REPO, p))
            sigs = [l.strip().split("signature=")[1].split()[0] for l in c.stdout.splitlines() if "signature=" in l]
            r["checks"][p] = {"exit": c.returncode, "sigs": sigs[:4], "s": round(time.time() - t0, 1)}
        if benign:
            alarms = {p: x for p, x in r["checks"].items() if x["exit"] != 0}
            r["alarms"] = sorted(alarms)
            results[name] = r
            print("%-45s suite=%-5s %s" % (name, r["suite"], "silent (all %d checks exit 0)" % len(r["checks"]) if not alarms else "ALARM %s" % {p: (x["exit"], x["sigs"][:2]) for p, x in alarms.items()}))
            sys.stdout.flush()
            revert(patch)
            continue
        caught = [p for p, x in r["checks"].items() if x["exit"] == 1]
        r["caught_by"] = caught
        results[name] = r
        print("%-45s suite=%-5s caught_by=%s %s" % (name, r["suite"], caught, {p: (x["exit"], x["sigs"][:1]) for p, x in r["checks"].items() if x["exit"] != 1}))
        sys.stdout.flush()
        revert(patch)
finally:
    if ISGIT: revert()
out = os.environ.get("MUT_OUT", "/verif/benign/results.json" if benign else "/verif/seeded/results.json" if seeded else "/verif/mutants/results.json")
old = {}
if os.path.exists(out):
    old = json.load(open(out))
old.update(results)
json.dump(old, open(out, "w"), indent=1)
