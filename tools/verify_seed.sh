#!/bin/bash
# verify_seed.sh <out-dir-of-change> : confirms in a scratch worktree (outside /repo and /verif) that
#  (1) the patch applies, (2) the pinned suite passes with it (guard off), (3) the demo fails with it and passes without.
# prints one line of JSON with the observations
D=$1
MODE=${2:-native}
WT=/tmp/vseed/wt
if [ ! -d $WT ]; then mkdir -p /tmp/vseed; git -C /repo worktree add -q --detach $WT HEAD || exit 2; fi
cd $WT && git checkout -q --detach $(git -C /repo rev-parse HEAD) 2>/dev/null; git checkout -q -- . ; git clean -fdq tests/ src/
cp $D/demo.rs $WT/tests/demo_seed.rs
run_demo() { if [ "$MODE" = miri ]; then MIRIFLAGS="-Zmiri-many-seeds=0..16 -Zmiri-disable-stacked-borrows" timeout 1200 cargo +nightly miri test --offline --test demo_seed 2>&1 | tail -60 > /tmp/vseed/demo.$1.log; else timeout 600 cargo test --offline --test demo_seed 2>&1 | tail -40 > /tmp/vseed/demo.$1.log; fi; grep -q "test result: ok" /tmp/vseed/demo.$1.log && ! grep -q "test result: FAILED" /tmp/vseed/demo.$1.log && echo pass || echo fail; }
WITHOUT=$(run_demo without)
git apply $D/patch.diff 2>/tmp/vseed/apply.err && APPLY=ok || APPLY=fail
SUITE=skip
if [ $APPLY = ok ]; then
  mv tests/demo_seed.rs /tmp/vseed/demo_seed.rs
  S=$(timeout 300 cargo test --offline 2>&1 | grep -E "^test result")
  if [ $(echo "$S" | grep -c "test result: ok") -ge 3 ] && ! echo "$S" | grep -q FAILED; then SUITE=pass; else SUITE=fail; fi
  mv /tmp/vseed/demo_seed.rs tests/demo_seed.rs
  WITH=$(run_demo with)
else WITH=na; fi
git checkout -q -- . ; git clean -fdq tests/ src/
echo "{\"change\": \"$D\", \"applies\": \"$APPLY\", \"suite_with_patch\": \"$SUITE\", \"demo_without_patch\": \"$WITHOUT\", \"demo_with_patch\": \"$WITH\"}"
