#!/usr/bin/env python3
"""rebase_patch.py <patch.diff> : re-creates a stored patch against /repo HEAD after a hook commit touched its
context. 3-way apply; in a conflict the patch's side is taken and the guarded hook lines of HEAD are kept in front
of it (hooks stay at their position). The result must compile; the file is rewritten in place."""
import sys,re,subprocess
patch=sys.argv[1]
subprocess.run(["git","-C","/repo","reset","-q","--hard"])
r=subprocess.run(["git","-C","/repo","apply","-3",patch],capture_output=True,text=True)
files=subprocess.run(["git","-C","/repo","diff","--name-only","--diff-filter=U"],capture_output=True,text=True).stdout.split()
for f in files:
    p="/repo/"+f
    s=open(p).read()
    def res(m):
        ours=m.group(1).splitlines(keepends=True); theirs=m.group(2)
        hooks=[]
        i=0
        while i<len(ours):
            if "#[cfg(kanal_verif)]" in ours[i] and i+1<len(ours) and "crate::verif::rt::" in ours[i+1] and ours[i] not in theirs:
                hooks+= [ours[i],ours[i+1]]; i+=2
            else: i+=1
        return "".join(hooks)+theirs
    s2=re.sub(r"<<<<<<< ours\n(.*?)=======\n(.*?)>>>>>>> theirs\n",res,s,flags=re.S)
    open(p,"w").write(s2)
subprocess.run(["git","-C","/repo","reset","-q"])
d=subprocess.run(["git","-C","/repo","diff"],capture_output=True,text=True).stdout
b=subprocess.run("cd /repo && cargo build --offline 2>&1 | tail -3",shell=True,capture_output=True,text=True).stdout
ok="error" not in b and "<<<<<<<" not in d and len(d)>0
print(patch, "resolved" if ok else "FAILED", len(d))
if ok:
    open(patch,"w").write(d)
subprocess.run(["git","-C","/repo","reset","-q","--hard"])
