#!/usr/bin/env python3
"""Builds /verif/mutants/<name>.diff from the edit table below, against /repo HEAD, in a scratch clone."""
import subprocess, os, sys, shutil, json
SCR = "/tmp/kmut"
OUT = "/verif/mutants"
def sh(*a, **k): return subprocess.run(a, capture_output=True, text=True, **k)
shutil.rmtree(SCR, ignore_errors=True)
sh("git", "clone", "-q", "/repo", SCR)

# (name, [properties expected to catch it], file, old, new, count)
M = []
def m(name, props, file, old, new, count=1): M.append((name, props, file, old, new, count))

m("c01_try_recv_refill_drops", ["C01"], "src/lib.rs",
  "                if let Some(p) = internal.next_send() {\n                    // if there is a sender take its data and push it into the\n                    // queue Safety: it's safe to receive from owned\n                    // signal once\n                    unsafe { internal.queue.push_back(p.recv()) }",
  "                if let Some(p) = internal.next_send() {\n                    // if there is a sender take its data and push it into the\n                    // queue Safety: it's safe to receive from owned\n                    // signal once\n                    unsafe { drop(p.recv()) }")
m("c01_cancel_send_lies", ["C01", "C13", "C07"], "src/internal.rs",
  "                if send.eq(sig) {\n                    self.wait_list.remove(i);\n                    return true;",
  "                if send.eq(sig) {\n                    return true;")
m("c02_push_send_front", ["C02"], "src/internal.rs",
  "    pub(crate) fn push_send(&mut self, s: SignalTerminator<T>) {\n        #[cfg(kanal_verif)]\n        let _verif_wl = VerifWaitList(self as *const Self);\n        #[cfg(kanal_verif)]\n        crate::verif::rt::probe(crate::verif::rt::probe::PUSH_SEND);\n        self.wait_list.push_back(s);",
  "    pub(crate) fn push_send(&mut self, s: SignalTerminator<T>) {\n        #[cfg(kanal_verif)]\n        let _verif_wl = VerifWaitList(self as *const Self);\n        #[cfg(kanal_verif)]\n        crate::verif::rt::probe(crate::verif::rt::probe::PUSH_SEND);\n        self.wait_list.push_front(s);")
m("c02_cancel_swap_remove", ["C02"], "src/internal.rs",
  "                if send.eq(sig) {\n                    self.wait_list.remove(i);",
  "                if send.eq(sig) {\n                    self.wait_list.swap_remove_back(i);")
m("c03_close_clears_after_unlock", ["C03"], "src/lib.rs",
  "            internal.terminate_signals();\n            internal.queue.clear();\n            Ok(())",
  "            internal.terminate_signals();\n            drop(internal);\n            acquire_internal(&self.internal).queue.clear();\n            Ok(())")
m("c04_recv_timeout_size_test", ["C04"], "src/lib.rs",
  "            // Safety: it's safe to assume init as data is forgotten on another\n            // side\n            if size_of::<T>() > size_of::<*mut T>() {\n                Ok(unsafe { ret.assume_init() })\n            } else {\n                Ok(unsafe { sig.assume_init() })\n            }\n        }\n        // if the queue is not empty send the data\n    }\n\n    shared_recv_impl!();",
  "            // Safety: it's safe to assume init as data is forgotten on another\n            // side\n            if size_of::<T>() >= size_of::<*mut T>() {\n                Ok(unsafe { ret.assume_init() })\n            } else {\n                Ok(unsafe { sig.assume_init() })\n            }\n        }\n        // if the queue is not empty send the data\n    }\n\n    shared_recv_impl!();")
m("c05_send_closed_no_drop", ["C05"], "src/lib.rs",
  "            if !sig.wait() {\n                // Safety: data failed to move, sender should drop it if it\n                // needs to\n                if needs_drop::<T>() {\n                    unsafe { data.assume_init_drop() }\n                }\n                return Err(SendError::Closed);\n            }\n            Ok(())",
  "            if !sig.wait() {\n                return Err(SendError::Closed);\n            }\n            Ok(())")
m("c06_unpark_before_store", ["C06"], "src/signal.rs",
  "                    (*this).state.store(state, Ordering::Release);\n                    thread.unpark();",
  "                    thread.unpark();\n                    (*this).state.store(state, Ordering::Release);")
m("c06_no_park_recheck", ["C06", "C07", "C01", "C04"], "src/signal.rs",
  "                        std::thread::park();\n                        let v = self.state.load(Ordering::Acquire);\n                        if v < LOCKED {\n                            return v == UNLOCKED;\n                        }",
  "                        std::thread::park();\n                        let v = self.state.load(Ordering::Acquire);\n                        return v != TERMINATED;")
m("c07_wake_relaxed", ["C07"], "src/signal.rs",
  "                let w = w.clone();\n                (*this).state.store(state, Ordering::Release);",
  "                let w = w.clone();\n                (*this).state.store(state, Ordering::Relaxed);")
m("c07_store_before_clone", ["C07"], "src/signal.rs",
  "                    let thread = (*waker.get()).as_ref().unwrap().clone();\n                    (*this).state.store(state, Ordering::Release);\n                    thread.unpark();",
  "                    (*this).state.store(state, Ordering::Release);\n                    let thread = (*waker.get()).as_ref().unwrap().clone();\n                    thread.unpark();")
m("c08_send_le_capacity", ["C08", "C18", "C03"], "src/lib.rs",
  "        } else if internal.queue.len() < internal.capacity {\n            // Safety: MaybeUninit is acting like a ManuallyDrop\n            internal.queue.push_back(data);",
  "        } else if internal.queue.len() <= internal.capacity {\n            // Safety: MaybeUninit is acting like a ManuallyDrop\n            internal.queue.push_back(data);")
m("c08_unbounded_try_send_refuses_at_40", ["C08", "C01"], "src/lib.rs",
  "                unsafe { first.send(data) }\n                return Ok(true);\n            } else if internal.queue.len() < internal.capacity {\n                internal.queue.push_back(data);\n                return Ok(true);\n            }\n            Ok(false)\n        }\n\n        /// Tries sending to the channel without waiting on the waitlist, if\n        /// send fails then the object will be dropped. It returns `Ok(true)` in\n        /// case of a successful operation and `Ok(false)` for a failed one, or\n        /// error in case that channel is closed. Important note: this function\n        /// is not lock-free as it acquires a mutex guard of the channel\n        /// internal for a short time.\n        ///\n        /// # Examples\n        ///\n        /// ```\n        /// # use std::thread::spawn;\n        /// let (s, r) = kanal::bounded(0);\n        /// let t=spawn( move || {\n        ///     let mut opt=Some(1);",
  "                unsafe { first.send(data) }\n                return Ok(true);\n            } else if internal.queue.len() < internal.capacity && internal.queue.len() != 40 {\n                internal.queue.push_back(data);\n                return Ok(true);\n            }\n            Ok(false)\n        }\n\n        /// Tries sending to the channel without waiting on the waitlist, if\n        /// send fails then the object will be dropped. It returns `Ok(true)` in\n        /// case of a successful operation and `Ok(false)` for a failed one, or\n        /// error in case that channel is closed. Important note: this function\n        /// is not lock-free as it acquires a mutex guard of the channel\n        /// internal for a short time.\n        ///\n        /// # Examples\n        ///\n        /// ```\n        /// # use std::thread::spawn;\n        /// let (s, r) = kanal::bounded(0);\n        /// let t=spawn( move || {\n        ///     let mut opt=Some(1);")
m("c08_try_send_refuses_one_early", ["C08", "C18"], "src/lib.rs",
  "                unsafe { first.send(data) }\n                return Ok(true);\n            } else if internal.queue.len() < internal.capacity {\n                internal.queue.push_back(data);\n                return Ok(true);\n            }\n            Ok(false)\n        }\n\n        /// Tries sending to the channel without waiting on the waitlist, if\n        /// send fails then the object will be dropped. It returns `Ok(true)` in\n        /// case of a successful operation and `Ok(false)` for a failed one, or\n        /// error in case that channel is closed. Important note: this function\n        /// is not lock-free as it acquires a mutex guard of the channel\n        /// internal for a short time.\n        ///\n        /// # Examples\n        ///\n        /// ```\n        /// # use std::thread::spawn;\n        /// let (s, r) = kanal::bounded(0);\n        /// let t=spawn( move || {\n        ///     let mut opt=Some(1);",
  "                unsafe { first.send(data) }\n                return Ok(true);\n            } else if internal.queue.len() < internal.capacity && (internal.capacity < 2 || internal.capacity == usize::MAX || internal.queue.len() + 1 < internal.capacity) {\n                internal.queue.push_back(data);\n                return Ok(true);\n            }\n            Ok(false)\n        }\n\n        /// Tries sending to the channel without waiting on the waitlist, if\n        /// send fails then the object will be dropped. It returns `Ok(true)` in\n        /// case of a successful operation and `Ok(false)` for a failed one, or\n        /// error in case that channel is closed. Important note: this function\n        /// is not lock-free as it acquires a mutex guard of the channel\n        /// internal for a short time.\n        ///\n        /// # Examples\n        ///\n        /// ```\n        /// # use std::thread::spawn;\n        /// let (s, r) = kanal::bounded(0);\n        /// let t=spawn( move || {\n        ///     let mut opt=Some(1);")
m("c09_clone_async_no_count", ["C09", "C12", "C18"], "src/lib.rs",
  "    pub fn clone_async(&self) -> AsyncSender<T> {\n        let mut internal = acquire_internal(&self.internal);\n        if internal.send_count > 0 {\n            internal.send_count += 1;\n        }",
  "    pub fn clone_async(&self) -> AsyncSender<T> {\n        let mut internal = acquire_internal(&self.internal);\n        if internal.send_count > 1 {\n            internal.send_count += 1;\n        }")
m("c10_close_no_terminate", ["C10", "C06"], "src/lib.rs",
  "            internal.send_count = 0;\n            internal.terminate_signals();\n            internal.queue.clear();",
  "            internal.send_count = 0;\n            internal.queue.clear();")
m("c10_second_close_ok", ["C10", "C18"], "src/lib.rs",
  "            if internal.recv_count == 0 && internal.send_count == 0 {\n                return Err(CloseError());\n            }",
  "            if internal.recv_count == 0 && internal.send_count == 0 && internal.capacity == 77 {\n                return Err(CloseError());\n            }")
m("c11_sender_drop_always_terminates", ["C11"], "src/lib.rs",
  "impl<T> Drop for Sender<T> {\n    fn drop(&mut self) {\n        let mut internal = acquire_internal(&self.internal);\n        if internal.send_count > 0 {\n            internal.send_count -= 1;\n            if internal.send_count == 0 && internal.recv_count != 0 {",
  "impl<T> Drop for Sender<T> {\n    fn drop(&mut self) {\n        let mut internal = acquire_internal(&self.internal);\n        if internal.send_count > 0 {\n            internal.send_count -= 1;\n            if internal.recv_count != 0 && !internal.recv_blocking == false {")
m("c11_async_sender_drop_never_terminates", ["C11", "C06"], "src/lib.rs",
  "impl<T> Drop for AsyncSender<T> {\n    fn drop(&mut self) {\n        let mut internal = acquire_internal(&self.internal);\n        if internal.send_count > 0 {\n            internal.send_count -= 1;\n            if internal.send_count == 0 && internal.recv_count != 0 {\n                internal.terminate_signals();\n            }",
  "impl<T> Drop for AsyncSender<T> {\n    fn drop(&mut self) {\n        let mut internal = acquire_internal(&self.internal);\n        if internal.send_count > 0 {\n            internal.send_count -= 1;\n            if internal.send_count == 0 && internal.recv_count == 0 {\n                internal.terminate_signals();\n            }")
m("c12_to_sync_extra_decrement", ["C12", "C18", "C09"], "src/lib.rs",
  "    pub fn to_sync(self) -> Sender<T> {\n        // Safety: structure of Sender<T> and AsyncSender<T> is same\n        unsafe { transmute(self) }",
  "    pub fn to_sync(self) -> Sender<T> {\n        let r = self.clone_sync();\n        {\n            let mut internal = acquire_internal(&self.internal);\n            if internal.send_count > 2 {\n                internal.send_count -= 1;\n            }\n        }\n        drop(self);\n        r")
m("c13_timeout_skips_cancel", ["C13", "C07", "C01"], "src/lib.rs",
  "                {\n                    let mut internal = acquire_internal(&self.internal);\n                    if internal.cancel_recv_signal(&sig) {\n                        return Err(ReceiveErrorTimeout::Timeout);\n                    }\n                }",
  "                {\n                    let internal = acquire_internal(&self.internal);\n                    if internal.recv_blocking {\n                        return Err(ReceiveErrorTimeout::Timeout);\n                    }\n                }")
m("c13_wait_timeout_early", ["C13"], "src/signal.rs",
  "        while Instant::now() < until {\n            let v = self.state.load(Ordering::Relaxed);",
  "        let mut verif_n = 0;\n        while Instant::now() < until && verif_n < 3 {\n            verif_n += 1;\n            let v = self.state.load(Ordering::Relaxed);")
m("c14_try_send_rt_blocks", ["C14"], "src/lib.rs",
  "        pub fn try_send_realtime(&self, data: T) -> Result<bool, SendError> {\n            if let Some(mut internal) = try_acquire_internal(&self.internal) {",
  "        pub fn try_send_realtime(&self, data: T) -> Result<bool, SendError> {\n            if let Some(mut internal) = Some(acquire_internal(&self.internal)) {")
m("c15_send_future_drop_skips_wait", ["C15", "C07"], "src/future.rs",
  "                if self.sig.async_blocking_wait() {\n                    // no need to drop data is moved to receiver\n                    return;\n                }",
  "                return;")
m("c16_never_refresh_waker", ["C16", "C06"], "src/future.rs",
  "                    if !this.sig.will_wake(cx.waker()) {\n                        // Waker is changed and we need to update waker in the waiting list\n                        let internal",
  "                    if false && !this.sig.will_wake(cx.waker()) {\n                        // Waker is changed and we need to update waker in the waiting list\n                        let internal")
m("c17_unlock_relaxed", ["C17", "C07"], "src/mutex.rs",
  "        self.locked.store(false, Ordering::Release);",
  "        self.locked.store(false, Ordering::Relaxed);")
m("c17_try_lock_load_store", ["C17"], "src/mutex.rs",
  "        self.locked\n            .compare_exchange(false, true, Ordering::Acquire, Ordering::Relaxed)\n            .is_ok()",
  "        if self.locked.load(Ordering::Acquire) {\n            return false;\n        }\n        self.locked.store(true, Ordering::Relaxed);\n        true")
m("c18_is_terminated_ignores_queue", ["C18"], "src/lib.rs",
  "            internal.send_count == 0 && internal.queue.len() == 0",
  "            internal.send_count == 0")
m("c19_required_cap_ignores_recv_blocking", ["C19", "C18", "C03"], "src/lib.rs",
  "                if internal.recv_blocking {\n                    0\n                } else {\n                    internal.wait_list.len()\n                }",
  "                internal.wait_list.len()")
m("d1_reintroduced_send_timeout_leak", ["C05", "C13"], "src/lib.rs",
  "                        drop(internal);\n                        // Safety: data failed to move, sender should drop it if it\n                        // needs to\n                        if needs_drop::<T>() {\n                            unsafe { data.assume_init_drop() }\n                        }\n                        return Err(SendErrorTimeout::Timeout);",
  "                        return Err(SendErrorTimeout::Timeout);")
m("d5_reintroduced_stream_stale_signal", ["C16", "C01", "C07"], "src/future.rs",
  "                        this.sig = Signal::new_async();\n", "")

meta = {}
for name, props, file, old, new, count in M:
    p = os.path.join(SCR, file)
    s = open(p).read()
    if s.count(old) != count:
        print("ANCHOR MISMATCH", name, s.count(old)); sys.exit(1)
    open(p, "w").write(s.replace(old, new))
    d = sh("git", "-C", SCR, "diff").stdout
    open(os.path.join(OUT, name + ".diff"), "w").write(d)
    sh("git", "-C", SCR, "checkout", "--", ".")
    meta[name] = {"expected_catchers": props, "file": file}
# reverse patches of the fix commits (the defects of DESIGN.md section 12 reintroduced)
for name, commit, props, file in [
    ("d2_reintroduced_option_timeout_double_drop", "afac4a8", ["C05", "C13"], "src/lib.rs"),
    ("d3_reintroduced_send_future_stale_waker", "6e741dd", ["C16", "C06"], "src/future.rs"),
    ("d4_reintroduced_recv_future_waker_race", "6b56da1", ["C07"], "src/future.rs"),
    ("d6_reintroduced_deadline_overflow_panic", "6bd7f79", ["C18", "C13"], "src/lib.rs"),
]:
    d = sh("git", "-C", "/repo", "diff", commit, commit + "~1", "--", "src").stdout
    open(os.path.join(OUT, name + ".diff"), "w").write(d)
    meta[name] = {"expected_catchers": props, "file": file}
json.dump(meta, open(os.path.join(OUT, "mutants.json"), "w"), indent=1)
shutil.rmtree(SCR, ignore_errors=True)
print("wrote", len(M), "mutants")
