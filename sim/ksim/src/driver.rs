//! Driver (forks worker processes, merges their statistics, writes the evidence
//! file, decides the verdict), worker loop, replay and self-tests.

use crate::case::{Case, Op};
use crate::check;
use crate::interp::{Rec, Res};
use crate::oracle::{RunData, Violation};
use crate::run::execute;
use crate::util::{hash_of, Fnv};
use kanal_verif_rt as rt;
use rt::exec::{mix, Source};
use serde::{Deserialize, Serialize};
use serde_json::{json, Value};
use std::collections::{BTreeMap, BTreeSet};
use std::hash::{Hash, Hasher};
use std::io::{BufRead, BufReader, Write};
use std::process::{Command, Stdio};
use std::time::Instant;

pub const DEFAULT_SEED: u64 = 20261001;

fn base_dir() -> String {
    std::env::var("VERIF_DIR").unwrap_or_else(|_| "/verif".to_string())
}

fn prop_hash(prop: &str) -> u64 {
    hash_of(&prop)
}

pub fn run_seed(seed: u64, prop: &str, index: u64) -> u64 {
    mix(mix(seed, prop_hash(prop)), index)
}

#[derive(Serialize, Deserialize, Clone, Debug)]
pub struct Replay {
    pub version: u32,
    pub property: String,
    pub signature: String,
    pub detail: String,
    pub engine: String,
    pub seed: u64,
    pub index: u64,
    pub case: Case,
    /// task choices, run-length encoded: [task, count]
    pub ts: Vec<(u8, u32)>,
    pub ds: Vec<u64>,
    pub log_hash: u64,
    pub minimised: bool,
    /// no decision script: re-run from the seed (used when the run killed the worker process)
    #[serde(default)]
    pub rng_seed: Option<u64>,
    /// crash replays re-execute the worker's whole chunk prefix [range_start, index] in one process: memory
    /// corrupted by an earlier run of the same process may be what kills a later one
    #[serde(default)]
    pub range_start: Option<u64>,
    #[serde(default)]
    pub tier: Option<String>,
}

pub fn rle(ts: &[u8]) -> Vec<(u8, u32)> {
    let mut out: Vec<(u8, u32)> = Vec::new();
    for &t in ts {
        match out.last_mut() {
            Some((x, n)) if *x == t => *n += 1,
            _ => out.push((t, 1)),
        }
    }
    out
}
pub fn unrle(r: &[(u8, u32)]) -> Vec<u8> {
    let mut out = Vec::new();
    for (t, n) in r {
        for _ in 0..*n {
            out.push(*t);
        }
    }
    out
}

#[derive(Serialize, Deserialize, Default, Clone, Debug)]
pub struct WStats {
    pub evaluations: u64,
    pub completed_runs: u64,
    pub aborted_runs: u64,
    pub nontrivial: Vec<u64>,
    pub nontrivial_runs: u64,
    pub sched_hashes: Vec<u64>,
    pub steps_total: u64,
    pub steps_max: u64,
    pub steps_min: u64,
    pub sim_ns_total: u64,
    pub ops_total: u64,
    pub faults: BTreeMap<String, u64>,
    pub probes: Vec<u64>,
    pub inconclusive: BTreeMap<String, u64>,
    pub knobs: BTreeMap<String, u64>,
    pub classes: BTreeMap<String, u64>,
    pub caps: BTreeMap<String, u64>,
    pub op_results: BTreeMap<String, u64>,
    #[serde(default)]
    pub paths: BTreeMap<String, u64>,
    pub hb_accesses: u64,
    pub hb_cross: u64,
    pub samples: Vec<Value>,
    pub violations: u64,
    #[serde(default)]
    pub hash_files: Vec<String>,
    #[serde(default)]
    pub explain: (u64, u64, u64, u64),
}

impl WStats {
    fn bump(m: &mut BTreeMap<String, u64>, k: impl Into<String>, n: u64) {
        *m.entry(k.into()).or_insert(0) += n;
    }
    fn merge(&mut self, o: WStats) {
        self.evaluations += o.evaluations;
        self.completed_runs += o.completed_runs;
        self.aborted_runs += o.aborted_runs;
        self.nontrivial.extend(o.nontrivial);
        self.nontrivial_runs += o.nontrivial_runs;
        self.sched_hashes.extend(o.sched_hashes);
        self.steps_total += o.steps_total;
        self.steps_max = self.steps_max.max(o.steps_max);
        self.steps_min = if self.steps_min == 0 { o.steps_min } else { self.steps_min.min(o.steps_min.max(1)) };
        self.sim_ns_total += o.sim_ns_total;
        self.ops_total += o.ops_total;
        for (k, v) in o.faults {
            Self::bump(&mut self.faults, k, v);
        }
        if self.probes.len() < o.probes.len() {
            self.probes.resize(o.probes.len(), 0);
        }
        for (i, v) in o.probes.iter().enumerate() {
            self.probes[i] += v;
        }
        for (k, v) in o.inconclusive {
            Self::bump(&mut self.inconclusive, k, v);
        }
        for (k, v) in o.knobs {
            Self::bump(&mut self.knobs, k, v);
        }
        for (k, v) in o.classes {
            Self::bump(&mut self.classes, k, v);
        }
        for (k, v) in o.caps {
            Self::bump(&mut self.caps, k, v);
        }
        for (k, v) in o.op_results {
            Self::bump(&mut self.op_results, k, v);
        }
        for (k, v) in o.paths {
            Self::bump(&mut self.paths, k, v);
        }
        self.hb_accesses += o.hb_accesses;
        self.hb_cross += o.hb_cross;
        if self.samples.len() < 3 {
            self.samples.extend(o.samples);
            self.samples.truncate(3);
        }
        self.violations += o.violations;
        self.hash_files.extend(o.hash_files);
        self.explain = (self.explain.0 + o.explain.0, self.explain.1 + o.explain.1, self.explain.2 + o.explain.2, self.explain.3 + o.explain.3);
    }
}

fn res_name(r: &Res) -> String {
    match r {
        Res::RecvOk(_) => "RecvOk".into(),
        Res::Drained { .. } => "Drained".into(),
        Res::IterVals(_) => "IterVals".into(),
        Res::Panicked(_) => "Panicked".into(),
        Res::Obs(_) => "Obs".into(),
        Res::SendErr(e) => format!("SendErr({:?})", e),
        Res::RecvErr(e) => format!("RecvErr({:?})", e),
        x => format!("{:?}", x),
    }
}

fn history_hash(recs: &[Rec]) -> u64 {
    let mut h = Fnv::default();
    for r in recs {
        r.task.hash(&mut h);
        r.idx.hash(&mut h);
        r.op.kind().hash(&mut h);
        r.res.hash(&mut h);
    }
    h.finish()
}

fn overlapped(recs: &[Rec]) -> bool {
    // did operations of two different non-main tasks overlap in simulated real time?
    for (i, a) in recs.iter().enumerate() {
        if a.task == 0 {
            continue;
        }
        for b in recs[i + 1..].iter() {
            if b.inv > a.ret && a.ret != 0 {
                break;
            }
            if b.task != 0 && b.task != a.task && (a.ret == 0 || b.inv < a.ret) {
                return true;
            }
        }
    }
    false
}

fn compact_history(d: &RunData) -> Value {
    let recs: Vec<Value> = d
        .recs
        .iter()
        .map(|r| json!({"task": r.task, "op": format!("{:?}", r.op), "inv": r.inv, "ret": r.ret, "res": format!("{:?}", r.res), "opt": format!("{:?}", r.opt), "reg": r.reg, "polls": r.polls}))
        .collect();
    json!({"case": d.case, "history": recs, "decisions": d.outcome.stats.steps, "sim_time_ns": d.outcome.clock_ns - 1_000_000})
}

fn account(st: &mut WStats, d: &RunData, prop: &str) {
    st.evaluations += 1;
    if d.outcome.abort.is_none() {
        st.completed_runs += 1;
    } else {
        st.aborted_runs += 1;
    }
    let ntasks = d.case.tasks.len();
    let nontrivial = if prop == "C18" { d.recs.iter().filter(|r| r.task == 1).count() >= 2 } else { ntasks >= 2 && overlapped(&d.recs) };
    if nontrivial {
        st.nontrivial_runs += 1;
        st.nontrivial.push(mix(d.case.shape_hash(), history_hash(&d.recs)));
    }
    st.sched_hashes.push(d.outcome.log_hash);
    let s = &d.outcome.stats;
    st.steps_total += s.steps;
    st.steps_max = st.steps_max.max(s.steps);
    st.steps_min = if st.steps_min == 0 { s.steps.max(1) } else { st.steps_min.min(s.steps.max(1)) };
    st.sim_ns_total += d.outcome.clock_ns - 1_000_000;
    st.ops_total += d.recs.len() as u64;
    let f = &mut st.faults;
    WStats::bump(f, "F1_preemptions(context switches)", s.switches);
    WStats::bump(f, "F2_stalls", s.stalls);
    WStats::bump(f, "F3_freeze_in_critical_section", s.cs_freezes);
    WStats::bump(f, "F4_spurious_park_returns", s.spurious_parks);
    WStats::bump(f, "F5_clock_jumps", s.clock_jumps);
    WStats::bump(f, "F13_spurious_weak_cas_failures(none: kanal uses no weak CAS)", s.weak_cas_failures);
    WStats::bump(f, "F7_spurious_polls", d.counters[0]);
    WStats::bump(f, "F8_waker_replaced", d.counters[1]);
    WStats::bump(f, "F9_future_cancelled_while_pending", d.counters[2]);
    WStats::bump(f, "timed_park_expiries(executor)", s.timed_wakes);
    let closes = d.recs.iter().filter(|r| matches!(r.res, Res::CloseOk)).count() as u64;
    WStats::bump(f, "F10_close_succeeded", closes);
    let drops = d.recs.iter().filter(|r| r.op.kind() == "drop_handle" && r.res == Res::Unit).count() as u64;
    WStats::bump(f, "F11_handle_drops", drops);
    let k = &d.case.knobs;
    WStats::bump(&mut st.knobs, format!("workload={}", if d.case.balanced { "balanced executors (several futures per executor)" } else if d.case.lock_harness { "lock harness" } else { "one operation at a time per task" }), 1);
    WStats::bump(&mut st.knobs, format!("policy={:?}", k.policy), 1);
    WStats::bump(&mut st.knobs, format!("time={:?}", k.time), 1);
    WStats::bump(&mut st.knobs, format!("parallelism={}", k.parallelism), 1);
    WStats::bump(&mut st.knobs, format!("spin_wait={}", k.spin[0]), 1);
    WStats::bump(&mut st.classes, format!("{:?}", d.case.class), 1);
    WStats::bump(&mut st.caps, format!("{:?}", d.case.cap), 1);
    for r in d.recs.iter() {
        if r.task != 0 {
            WStats::bump(&mut st.op_results, format!("{}:{}", r.op.kind(), res_name(&r.res)), 1);
            // transfer path coverage per payload class (C04): which way did the value travel?
            let sent = r.op.is_send_like() && r.res == Res::SendOk;
            let got = matches!(r.res, Res::RecvOk(_)) || matches!(&r.res, Res::Drained { appended, .. } if !appended.is_empty());
            if sent || got {
                let path = if sent && r.probes.contains(&rt::probe::DIRECT_TO_RECEIVER) {
                    "written into a waiting receiver's slot"
                } else if sent && r.reg.is_some() {
                    "taken out of the waiting sender's slot by a receiver"
                } else if sent {
                    "buffer (send side)"
                } else if r.probes.contains(&rt::probe::DIRECT_FROM_SENDER) {
                    "receive read a waiting sender's slot (direct or refill)"
                } else if r.reg.is_some() {
                    "delivered into this waiting receiver's slot"
                } else {
                    "buffer (receive side)"
                };
                let waiter = match (&r.op, r.reg.is_some()) {
                    (_, false) => "",
                    (Op::ASend { .. } | Op::ARecv { .. } | Op::StreamNext { .. } | Op::FutPoll { .. }, true) => " [pending future]",
                    (Op::SendTimeout { .. } | Op::SendOptTimeout { .. } | Op::RecvTimeout { .. }, true) => " [timed waiter]",
                    (_, true) => {
                        if r.probes.contains(&rt::probe::PARK_ENTER) {
                            " [parked thread]"
                        } else {
                            " [spinning thread]"
                        }
                    }
                };
                WStats::bump(&mut st.paths, format!("{:?} / {}{}", d.case.class, path, waiter), 1);
            }
        }
    }
    if st.probes.len() < d.outcome.probes.len() {
        st.probes.resize(d.outcome.probes.len(), 0);
    }
    for (i, v) in d.outcome.probes.iter().enumerate() {
        st.probes[i] += v;
    }
    st.hb_accesses += d.outcome.hb_accesses;
    st.hb_cross += d.outcome.hb_cross;
    if st.samples.len() < 1 && nontrivial && d.recs.len() >= 6 {
        st.samples.push(compact_history(d));
    }
}

fn sanitize(s: &str) -> String {
    s.chars().map(|c| if c.is_ascii_alphanumeric() { c } else { '_' }).collect::<String>().chars().take(60).collect()
}

pub fn write_replay(prop: &str, seed: u64, index: u64, d: &RunData, vio: &Violation, minimised: bool) -> String {
    let rp = Replay {
        version: 1,
        property: prop.to_string(),
        signature: vio.sig.clone(),
        detail: vio.detail.clone(),
        engine: "ksim".into(),
        seed,
        index,
        case: d.case.clone(),
        ts: rle(&d.outcome.ts),
        ds: d.outcome.ds.clone(),
        log_hash: d.outcome.log_hash,
        minimised,
        rng_seed: None,
        range_start: None,
        tier: None,
    };
    let dir = format!("{}/replays", base_dir());
    let _ = std::fs::create_dir_all(&dir);
    let path = format!("{}/{}-{}-{}-{}.json", dir, prop, sanitize(&vio.sig), seed, index);
    std::fs::write(&path, serde_json::to_string_pretty(&rp).unwrap()).expect("write replay");
    path
}

pub fn write_stuck_replay(prop: &str, seed: u64, index: u64, tier: &str) -> String {
    let rs = run_seed(seed, prop, index);
    let case = check::make_case(prop, rs, index, tier);
    let rp = Replay {
        version: 1,
        property: prop.to_string(),
        signature: "hang/no-scheduling-point".into(),
        detail: "the run never reached another scheduling point".into(),
        engine: "ksim".into(),
        seed,
        index,
        case,
        ts: vec![],
        ds: vec![],
        log_hash: 0,
        minimised: false,
        rng_seed: Some(mix(rs, 0xE)),
        range_start: Some(index),
        tier: Some(tier.to_string()),
    };
    let dir = format!("{}/replays", base_dir());
    let _ = std::fs::create_dir_all(&dir);
    let path = format!("{}/{}-stuck-{}-{}.json", dir, prop, seed, index);
    std::fs::write(&path, serde_json::to_string_pretty(&rp).unwrap()).expect("write replay");
    path
}

pub fn write_crash_replay(prop: &str, seed: u64, index: u64, tier: &str, range_start: u64) -> String {
    let rs = run_seed(seed, prop, index);
    let case = check::make_case(prop, rs, index, tier);
    let rp = Replay {
        version: 1,
        property: prop.to_string(),
        signature: "crash/process-died".into(),
        detail: "the worker process died while executing this run".into(),
        engine: "ksim".into(),
        seed,
        index,
        case,
        ts: vec![],
        ds: vec![],
        log_hash: 0,
        minimised: false,
        rng_seed: Some(mix(rs, 0xE)),
        range_start: Some(range_start),
        tier: Some(tier.to_string()),
    };
    let dir = format!("{}/replays", base_dir());
    let _ = std::fs::create_dir_all(&dir);
    let path = format!("{}/{}-crash-{}-{}.json", dir, prop, seed, index);
    std::fs::write(&path, serde_json::to_string_pretty(&rp).unwrap()).expect("write replay");
    path
}

pub fn cmd_worker(args: &[String]) -> i32 {
    let prop = &args[0];
    let seed: u64 = args[1].parse().unwrap();
    let start: u64 = args[2].parse().unwrap();
    let count: u64 = args[3].parse().unwrap();
    let tier: &str = args.get(4).map(|s| s.as_str()).unwrap_or("quick");
    let mut st = WStats::default();
    let out = std::io::stdout();
    let mut seen_sigs: BTreeSet<String> = BTreeSet::new();
    let mut first_violation_at: Option<u64> = None;
    for i in start..start + count {
        // after a violation the verdict is settled: look a little further for other signatures, then stop
        if let Some(f) = first_violation_at {
            if i > f + 300 || st.steps_total > 50_000_000 {
                break;
            }
        }
        let rs = run_seed(seed, prop, i);
        let case = check::make_case(prop, rs, i, tier);
        {
            // the driver learns which run was in flight if this process dies
            let mut o = out.lock();
            let _ = writeln!(o, "R {}", i);
        }
        let d = execute(&case, Source::Rng(mix(rs, 0xE)));
        account(&mut st, &d, prop);
        let (mine, foreign) = check::evaluate(prop, &d);
        for f in foreign {
            WStats::bump(&mut st.inconclusive, f.sig, 1);
        }
        if let Some(vio) = mine.first() {
            st.violations += 1;
            if first_violation_at.is_none() {
                first_violation_at = Some(i);
            }
            if seen_sigs.insert(vio.sig.clone()) && seen_sigs.len() <= 4 {
                {
                    // minimisation can take a while without any further output: tell the driver's stuck-run watchdog
                    let mut o = out.lock();
                    let _ = writeln!(o, "M {}", i);
                }
                let (d2, vio2, minimised) = crate::driver::minimise(prop, &d, vio);
                let path = write_replay(prop, seed, i, &d2, &vio2, minimised);
                let mut o = out.lock();
                writeln!(o, "V {}", json!({"index": i, "sig": vio2.sig, "detail": vio2.detail, "replay": path})).unwrap();
                o.flush().unwrap();
            }
        }
    }
    st.explain = crate::explain::EXPLAIN_TOTALS.with(|t| t.get());
    // the two hash sets go to sorted binary files next to the build output; the driver merges and deletes them
    let dir = format!("{}/sim/target/tmp", base_dir());
    let _ = std::fs::create_dir_all(&dir);
    for (name, v) in [("nt", &mut st.nontrivial), ("sc", &mut st.sched_hashes)] {
        v.sort_unstable();
        v.dedup();
        let mut bytes = Vec::with_capacity(v.len() * 8);
        for x in v.iter() {
            bytes.extend_from_slice(&x.to_le_bytes());
        }
        let path = format!("{}/{}-{}-{}-{}.{}", dir, prop, seed, start, std::process::id(), name);
        std::fs::write(&path, bytes).expect("write hash file");
        st.hash_files.push(path);
        v.clear();
    }
    let mut o = out.lock();
    writeln!(o, "S {}", serde_json::to_string(&st).unwrap()).unwrap();
    0
}

/// number of distinct u64 in the union of sorted, deduplicated little-endian files
fn merge_count(files: &[String]) -> u64 {
    use std::collections::BinaryHeap;
    use std::cmp::Reverse;
    use std::io::Read;
    let mut readers: Vec<std::io::BufReader<std::fs::File>> = Vec::new();
    for f in files {
        if let Ok(fh) = std::fs::File::open(f) {
            readers.push(std::io::BufReader::with_capacity(1 << 16, fh));
        }
    }
    let mut heap: BinaryHeap<Reverse<(u64, usize)>> = BinaryHeap::new();
    let next = |r: &mut std::io::BufReader<std::fs::File>| -> Option<u64> {
        let mut b = [0u8; 8];
        r.read_exact(&mut b).ok().map(|_| u64::from_le_bytes(b))
    };
    for (i, r) in readers.iter_mut().enumerate() {
        if let Some(x) = next(r) {
            heap.push(Reverse((x, i)));
        }
    }
    let mut last: Option<u64> = None;
    let mut n = 0u64;
    while let Some(Reverse((x, i))) = heap.pop() {
        if last != Some(x) {
            n += 1;
            last = Some(x);
        }
        if let Some(y) = next(&mut readers[i]) {
            heap.push(Reverse((y, i)));
        }
    }
    n
}

pub fn minimise(prop: &str, d: &RunData, vio: &Violation) -> (RunData, Violation, bool) {
    if std::env::var("VERIF_NO_SHRINK").is_ok() {
        let d2 = execute(&d.case, Source::Script { ts: d.outcome.ts.clone(), ds: d.outcome.ds.clone(), strict: true });
        return (d2, vio.clone(), false);
    }
    crate::shrink::minimise(prop, d, vio)
}

#[derive(Deserialize, Clone, Debug)]
pub struct Known {
    pub property: String,
    pub signature: String,
    pub status: String,
    #[serde(default)]
    pub commit: Option<String>,
    pub what: String,
}

fn load_known() -> Vec<Known> {
    let p = format!("{}/known_findings.json", base_dir());
    match std::fs::read_to_string(&p) {
        Ok(s) => serde_json::from_str(&s).unwrap_or_else(|e| {
            eprintln!("harness error: cannot parse {}: {}", p, e);
            std::process::exit(2)
        }),
        Err(_) => Vec::new(),
    }
}

pub fn cmd_check(prop: &str, tier: &str) -> i32 {
    let Some(def) = check::def(prop) else {
        eprintln!("unknown property {}", prop);
        return 2;
    };
    let seed: u64 = std::env::var("VERIF_SEED").ok().and_then(|s| s.parse().ok()).unwrap_or(DEFAULT_SEED);
    let tier = std::env::var("VERIF_TIER").ok().filter(|t| t == "quick" || t == "thorough").unwrap_or(tier.to_string());
    let runs: u64 = std::env::var("VERIF_RUNS").ok().and_then(|s| s.parse().ok()).unwrap_or(if tier == "thorough" { def.thorough_runs } else { def.quick_runs });
    let workers: u64 = std::env::var("VERIF_WORKERS").ok().and_then(|s| s.parse().ok()).unwrap_or(16);
    println!("VERIF_SEED={} property={} tier={} runs={} workers={}", seed, prop, tier, runs, workers);
    let t0 = Instant::now();
    let exe = std::env::current_exe().unwrap();
    // many small chunks so that a slow chunk does not dominate; chunk -> worker process
    let chunk = ((runs + workers * 4 - 1) / (workers * 4)).max(1);
    let mut pending: Vec<(u64, u64)> = Vec::new();
    let mut s = 0;
    while s < runs {
        pending.push((s, chunk.min(runs - s)));
        s += chunk;
    }
    pending.reverse();
    let mut total = WStats::default();
    let mut vios: Vec<Value> = Vec::new();
    let mut harness_err = false;
    let mut crashes = 0u64;
    let mut first_vio: Option<Instant> = None;
    let mut results: Vec<(u64, String)> = Vec::new();
    // one reader thread per worker process; the driver waits on a channel with a watchdog
    enum Msg {
        Line(u64, String),
        End(u64, bool),
    }
    let (tx, rx) = std::sync::mpsc::channel::<Msg>();
    let mut running: BTreeMap<u64, (std::sync::Arc<std::sync::Mutex<std::process::Child>>, u64, Instant, u64)> = BTreeMap::new();
    let limit_s: u64 = std::env::var("VERIF_WORKER_TIMEOUT").ok().and_then(|s| s.parse().ok()).unwrap_or(if tier == "thorough" { 3600 } else { 600 });
    // a run that produces no output for this long is stuck INSIDE the simulated system at a place without any
    // scheduling point (a loop in the library that touches no atomic, lock, clock or thread primitive): a normal run
    // takes well under a second (the decision bound ends it), minimisation announces itself
    let stuck_s: u64 = std::env::var("VERIF_STUCK_S").ok().and_then(|s| s.parse().ok()).unwrap_or(30);
    let mut last_seen: BTreeMap<u64, (Instant, bool)> = BTreeMap::new();
    let mut stuck_reports = 0u64;
    loop {
        while (running.len() as u64) < workers {
            let Some((st, cnt)) = pending.pop() else { break };
            let mut child = Command::new(&exe)
                .args(["worker", prop, &seed.to_string(), &st.to_string(), &cnt.to_string(), &tier])
                .stdout(Stdio::piped())
                .stderr(Stdio::inherit())
                .spawn()
                .expect("spawn worker");
            let so = child.stdout.take().unwrap();
            let child = std::sync::Arc::new(std::sync::Mutex::new(child));
            let c2 = child.clone();
            let tx2 = tx.clone();
            std::thread::spawn(move || {
                for line in BufReader::new(so).lines() {
                    let _ = tx2.send(Msg::Line(st, line.unwrap_or_default()));
                }
                let ok = c2.lock().unwrap().wait().map(|s| s.success()).unwrap_or(false);
                let _ = tx2.send(Msg::End(st, ok));
            });
            running.insert(st, (child, cnt, Instant::now(), st));
            last_seen.insert(st, (Instant::now(), false));
        }
        if running.is_empty() {
            break;
        }
        match rx.recv_timeout(std::time::Duration::from_secs(2)) {
            Ok(Msg::Line(st, line)) => {
                if let Some(e) = last_seen.get_mut(&st) {
                    *e = (Instant::now(), line.starts_with("M "));
                }
                if let Some(j) = line.strip_prefix("V ") {
                    if let Ok(vj) = serde_json::from_str::<Value>(j) {
                        vios.push(vj);
                    }
                    if first_vio.is_none() {
                        first_vio = Some(Instant::now());
                        if !pending.is_empty() {
                            eprintln!("note: a violation was found; {} chunks that have not started are not run", pending.len());
                            pending.clear();
                        }
                    }
                } else if let Some(j) = line.strip_prefix("S ") {
                    results.push((st, j.to_string()));
                } else if let Some(j) = line.strip_prefix("R ") {
                    if let Some(e) = running.get_mut(&st) {
                        e.3 = j.trim().parse().unwrap_or(e.3);
                    }
                }
            }
            Ok(Msg::End(st, ok)) => {
                if let Some((_, cnt, _, last)) = running.remove(&st) {
                    let got = results.iter().any(|r| r.0 == st);
                    if !ok || !got {
                        // the simulated system killed the worker process (memory corruption, abort): that run is
                        // reported as a violation with a seed-based replay, the rest of the chunk goes to a new worker
                        crashes += 1;
                        if crashes <= 40 {
                            let path = write_crash_replay(prop, seed, last, &tier, st);
                            vios.push(json!({"index": last, "sig": "crash/process-died", "detail": format!("the worker process died while executing run {} (signal or abort inside the simulated system)", last), "replay": path}));
                            if last + 1 < st + cnt {
                                pending.push((last + 1, st + cnt - (last + 1)));
                            }
                        } else {
                            // the verdict is already a violation: do not start further work
                            if !pending.is_empty() {
                                eprintln!("note: {} worker deaths; the remaining {} chunks are not run", crashes, pending.len());
                                pending.clear();
                            }
                        }
                    }
                }
            }
            Err(_) => {}
        }
        // once the verdict is a violation, workers get a grace period to finish their current runs
        if let Some(t) = first_vio {
            if t.elapsed().as_secs() > 25 && !running.is_empty() {
                eprintln!("note: stopping {} workers that are still running 25 s after the first violation", running.len());
                for (_, (child, _, _, _)) in running.iter() {
                    let _ = child.lock().map(|mut c| c.kill());
                }
                running.clear();
            }
        }
        // stuck-run watchdog
        let nowi = Instant::now();
        let stuck: Vec<u64> = running
            .keys()
            .filter(|k| last_seen.get(k).map_or(false, |(t, minimising)| !*minimising && nowi.duration_since(*t).as_secs() > stuck_s))
            .cloned()
            .collect();
        for st in stuck {
            if let Some((child, cnt, _, last)) = running.remove(&st) {
                let _ = child.lock().map(|mut c| c.kill());
                stuck_reports += 1;
                let path = write_stuck_replay(prop, seed, last, &tier);
                vios.push(json!({"index": last, "sig": "hang/no-scheduling-point", "detail": format!("run {} produced no scheduling point for more than {} s of wall-clock time: a call into the library never returns and touches no atomic, lock, clock or thread primitive while it spins", last, stuck_s), "replay": path}));
                if first_vio.is_none() {
                    first_vio = Some(Instant::now());
                }
                if stuck_reports <= 3 && last + 1 < st + cnt && first_vio.is_none() {
                    pending.push((last + 1, st + cnt - (last + 1)));
                } else if !pending.is_empty() {
                    pending.clear();
                }
            }
        }
        // watchdog
        let now = Instant::now();
        let late: Vec<u64> = running.iter().filter(|(_, v)| now.duration_since(v.2).as_secs() > limit_s).map(|(k, _)| *k).collect();
        for st in late {
            if let Some((child, cnt, _, last)) = running.remove(&st) {
                let _ = child.lock().map(|mut c| c.kill());
                eprintln!("harness error: worker for runs {}..{} exceeded {} s and was killed (last run started: {})", st, st + cnt, limit_s, last);
                harness_err = true;
            }
        }
    }
    results.sort_by_key(|r| r.0);
    for (_, j) in results {
        match serde_json::from_str::<WStats>(&j) {
            Ok(w) => total.merge(w),
            Err(e) => {
                eprintln!("harness error: bad worker summary: {}", e);
                harness_err = true;
            }
        }
    }
    // second engine
    let mut miri_stats: Option<Value> = None;
    if matches!(prop, "C07" | "C04" | "C05" | "C13" | "C15") && std::env::var("VERIF_NO_MIRI").is_err() {
        let (mv, ms, merr) = crate::miri::stage(prop, &tier, seed);
        vios.extend(mv);
        miri_stats = Some(ms);
        harness_err |= merr;
    }
    let wall = t0.elapsed().as_secs_f64();
    // verdict
    let known = load_known();
    vios.sort_by_key(|v| v["index"].as_u64().unwrap_or(0));
    let mut reported: BTreeSet<String> = BTreeSet::new();
    let mut n_viol = 0;
    let mut known_hits: Vec<String> = Vec::new();
    for vj in vios.iter() {
        let sig = vj["sig"].as_str().unwrap_or("").to_string();
        if !reported.insert(sig.clone()) {
            continue;
        }
        let replay = vj["replay"].as_str().unwrap_or("");
        if let Some(k) = known.iter().find(|k| k.property == prop && k.signature == sig && k.status == "open") {
            println!("KNOWN-FINDING: property={} {} [{}]", prop, k.what, sig);
            known_hits.push(sig);
            continue;
        }
        // re-verify the replay in a fresh process
        let out = Command::new(&exe).args(["replay", replay]).output().expect("replay");
        let txt = String::from_utf8_lossy(&out.stdout).to_string();
        let died = out.status.code().is_none() || out.status.code().map_or(false, |c| c > 2);
        let confirmed = (out.status.code() == Some(1) && txt.contains("VIOLATION property=")) || (sig == "crash/process-died" && died);
        let fresh_sig = txt.lines().find_map(|l| l.trim().strip_prefix("signature=")).unwrap_or("").to_string();
        if confirmed && fresh_sig != sig && !sig.starts_with("crash/") {
            println!("note: in a fresh process the replay reports `{}` (worker: `{}`): the run reads memory whose content is not defined", fresh_sig, sig);
        }
        if !confirmed {
            eprintln!("harness error: replay {} did not reproduce `{}` in a fresh process:\n{}", replay, sig, txt);
            harness_err = true;
            continue;
        }
        n_viol += 1;
        println!("VIOLATION property={} replay={}", prop, replay);
        println!("  signature={} index={}", sig, vj["index"]);
        println!("  {}", vj["detail"].as_str().unwrap_or(""));
    }
    let nt_files: Vec<String> = total.hash_files.iter().filter(|f| f.ends_with(".nt")).cloned().collect();
    let sc_files: Vec<String> = total.hash_files.iter().filter(|f| f.ends_with(".sc")).cloned().collect();
    let distinct_nt = merge_count(&nt_files);
    let distinct_sc = merge_count(&sc_files);
    for f in total.hash_files.iter() {
        let _ = std::fs::remove_file(f);
    }
    let wall = t0.elapsed().as_secs_f64();
    write_evidence(&def, prop, &tier, seed, runs, workers, &total, wall, n_viol, &known_hits, distinct_nt, distinct_sc, miri_stats);
    println!(
        "{}: {} runs, {} distinct non-trivial, {} decisions, {:.1}s wall, {} violation(s), {} known finding(s), inconclusive: {:?}",
        prop,
        total.evaluations,
        distinct_nt,
        total.steps_total,
        wall,
        n_viol,
        known_hits.len(),
        total.inconclusive
    );
    if n_viol > 0 {
        return 1;
    }
    if harness_err {
        return 2;
    }
    0
}

fn write_evidence(def: &check::CheckDef, prop: &str, tier: &str, seed: u64, runs: u64, workers: u64, t: &WStats, wall: f64, n_viol: u64, known_hits: &[String], distinct_nt: u64, distinct_sc: u64, miri_stats: Option<Value>) {
    let probes: BTreeMap<String, u64> = rt::probe::PROBE_NAMES
        .iter()
        .map(|(id, name)| (name.to_string(), t.probes.get(*id as usize).copied().unwrap_or(0)))
        .collect();
    let per_hour = if wall > 0.0 { (t.evaluations as f64 / wall * 3600.0) as u64 } else { 0 };
    let ev = json!({
        "property_id": prop,
        "tier": tier,
        "seed": seed,
        "level": def.level,
        "wall_s": wall,
        "violations": n_viol,
        "coverage": {
            "evaluations": t.evaluations,
            "distinct_nontrivial": distinct_nt,
            "rule": def.rule,
            "samples": t.samples,
            "runs_requested": runs,
            "workers": workers,
            "runs_completed_normally": t.completed_runs,
            "runs_ended_by_oracle_or_engine": t.aborted_runs,
            "runs_with_overlapping_operations": t.nontrivial_runs,
            "runs_per_hour": per_hour,
            "seeds_per_hour": per_hour,
            "simulated_time_ns_total": t.sim_ns_total,
            "decisions_total": t.steps_total,
            "decisions_per_run_min": t.steps_min,
            "decisions_per_run_max": t.steps_max,
            "decisions_per_run_mean": if t.evaluations > 0 { t.steps_total / t.evaluations } else { 0 },
            "operations_total": t.ops_total,
            "distinct_schedules(event-log hashes)": distinct_sc,
            "faults_fired": t.faults,
            "probe_hits": probes,
            "knob_histogram": t.knobs,
            "payload_classes": t.classes,
            "capacities": t.caps,
            "operation_results": t.op_results,
            "transfer_paths(payload class / path [waiter kind])": t.paths,
            "monitored_accesses": t.hb_accesses,
            "monitored_cross_task_accesses": t.hb_cross,
            "inconclusive_runs(other property's oracle fired)": t.inconclusive,
            "explainability_search": {"histories_searched_exhaustively": t.explain.0, "model_states_visited": t.explain.1, "searches_that_hit_the_state_budget(counted as explained)": t.explain.2, "histories_outside_the_supported_alphabet(not judged)": t.explain.3},
            "known_findings_hit": known_hits,
            "second_engine": miri_stats,
            "real_code": ["kanal src/lib.rs", "src/internal.rs", "src/signal.rs", "src/future.rs", "src/pointer.rs", "src/mutex.rs", "src/backoff.rs", "src/error.rs", "lock_api", "alloc::collections::VecDeque", "alloc::sync::Arc"],
            "stubbed": ["core::sync::atomic::* (scheduling point + happens-before bookkeeping)", "std::thread::{park,park_timeout,unpark,current,yield_now,sleep,available_parallelism} (park_timeout = timed park in simulated time)", "std::time::Instant (virtual clock; idle time accelerates)", "statics of the system under test are restored before every run", "std::hint::spin_loop (no-op)", "executor and wakers (harness executor instead of tokio)", "OS scheduler (seeded scheduler over corosensei coroutines)"]
        },
        "assumptions": [
            "sampling: a clean batch is evidence over the stated runs, not proof",
            "executions are sequentially consistent; missing release/acquire edges are detected by the vector-clock monitor on hooked accesses, not by observing stale values",
            "default cargo features of kanal (async on, std-mutex off)",
            "corosensei context switching, lock_api and rustc are trusted",
            "every scheduling policy is fair in the limit (a task is preempted after 3000 decisions of its own without yielding); waiting must reach a yield, park, sleep or clock read - an unlimited busy wait without any of them exhausts the decision budget and is reported as a hang (documented limit)",
            "a run that reaches no scheduling point for 30 s of wall-clock time is reported as stuck (the only verdict that reads a real clock)"
        ]
    });
    // sensitivity tools run the checks against deliberately broken trees: those runs must not replace the evidence
    if std::env::var_os("VERIF_NO_EVIDENCE").is_some() {
        return;
    }
    let dir = format!("{}/evidence", base_dir());
    let _ = std::fs::create_dir_all(&dir);
    std::fs::write(format!("{}/{}.json", dir, prop), serde_json::to_string_pretty(&ev).unwrap()).expect("write evidence");
}

pub fn cmd_replay(path: &str) -> i32 {
    let s = match std::fs::read_to_string(path) {
        Ok(s) => s,
        Err(e) => {
            eprintln!("cannot read {}: {}", path, e);
            return 2;
        }
    };
    if let Ok(vj) = serde_json::from_str::<Value>(&s) {
        if vj["engine"] == "miri" {
            return crate::miri::replay(&vj);
        }
    }
    let rp: Replay = match serde_json::from_str(&s) {
        Ok(r) => r,
        Err(e) => {
            eprintln!("cannot parse {}: {}", path, e);
            return 2;
        }
    };
    if rp.signature == "hang/no-scheduling-point" {
        // re-execute that one run in a child process and give it the same wall-clock allowance
        let stuck_s: u64 = std::env::var("VERIF_STUCK_S").ok().and_then(|s| s.parse().ok()).unwrap_or(30);
        let tier = rp.tier.clone().unwrap_or("quick".into());
        let exe = std::env::current_exe().unwrap();
        let mut child = match Command::new(&exe)
            .args(["worker", &rp.property, &rp.seed.to_string(), &rp.index.to_string(), "1", &tier])
            .stdout(Stdio::null())
            .stderr(Stdio::null())
            .spawn()
        {
            Ok(c) => c,
            Err(e) => {
                eprintln!("cannot start the replay process: {}", e);
                return 2;
            }
        };
        let t0 = Instant::now();
        loop {
            match child.try_wait() {
                Ok(Some(_)) => {
                    println!("run {} of {} finished after {:.1} s: not stuck", rp.index, rp.property, t0.elapsed().as_secs_f64());
                    return 0;
                }
                Ok(None) => {}
                Err(_) => return 2,
            }
            if t0.elapsed().as_secs() > stuck_s {
                let _ = child.kill();
                let _ = child.wait();
                println!("VIOLATION property={} replay={}", rp.property, path);
                println!("  signature=hang/no-scheduling-point");
                println!("  run {} did not reach another scheduling point within {} s", rp.index, stuck_s);
                return 1;
            }
            std::thread::sleep(std::time::Duration::from_millis(200));
        }
    }
    if let (Some(_), Some(start)) = (rp.rng_seed, rp.range_start) {
        // re-execute the worker's chunk prefix in this process; if the simulated system corrupts memory the
        // process dies here exactly as the worker did
        let tier = rp.tier.clone().unwrap_or("quick".into());
        println!("re-executing runs {}..={} of {} (seed {}) in one process", start, rp.index, rp.property, rp.seed);
        for i in start..=rp.index {
            let rs = run_seed(rp.seed, &rp.property, i);
            let case = check::make_case(&rp.property, rs, i, &tier);
            let d = execute(&case, Source::Rng(mix(rs, 0xE)));
            let (mine, _) = check::evaluate(&rp.property, &d);
            if i == rp.index {
                if let Some(v) = mine.first() {
                    println!("VIOLATION property={} replay={}", rp.property, path);
                    println!("  signature={}", v.sig);
                    println!("  {}", v.detail);
                    return 1;
                }
            }
        }
        println!("the process survived: no crash reproduced");
        return 0;
    }
    let src = match rp.rng_seed {
        Some(s) => Source::Rng(s),
        None => Source::Script { ts: unrle(&rp.ts), ds: rp.ds.clone(), strict: true },
    };
    let d = execute(&rp.case, src);
    if let Some(rt::exec::Abort::Diverged(m)) = &d.outcome.abort {
        println!("replay diverged: {}", m);
        return 2;
    }
    let (mine, foreign) = check::evaluate(&rp.property, &d);
    println!("replayed {} decisions, event-log hash {:#x} (recorded {:#x})", d.outcome.stats.steps, d.outcome.log_hash, rp.log_hash);
    for r in d.recs.iter() {
        println!("  t{} #{:<2} [{:>5},{:>5}] {:?} -> {:?} {:?}", r.task, r.idx, r.inv, r.ret, r.op, r.res, r.opt);
    }
    if let Some(v) = mine.iter().find(|v| v.sig == rp.signature).or(mine.first()) {
        println!("VIOLATION property={} replay={}", rp.property, path);
        println!("  signature={}", v.sig);
        println!("  {}", v.detail);
        return 1;
    }
    println!("no violation of {} reproduced (other oracles: {:?})", rp.property, foreign.iter().map(|f| &f.sig).collect::<Vec<_>>());
    0
}

pub fn cmd_one(prop: &str, seed: u64, index: u64) -> i32 {
    let rs = run_seed(seed, prop, index);
    let case = check::make_case(prop, rs, index, &std::env::var("VERIF_TIER").unwrap_or("quick".into()));
    println!("{}", serde_json::to_string(&case).unwrap());
    let d = execute(&case, Source::Rng(mix(rs, 0xE)));
    for r in d.recs.iter() {
        println!("  t{} #{:<2} [{:>5},{:>5}] {:?} -> {:?} {:?} reg={:?} polls={}", r.task, r.idx, r.inv, r.ret, r.op, r.res, r.opt, r.reg, r.polls);
    }
    println!("abort={:?} stats={:?}", d.outcome.abort, d.outcome.stats);
    let (mine, foreign) = check::evaluate(prop, &d);
    println!("mine={:?}\nforeign={:?}", mine, foreign);
    0
}

pub fn cmd_selftest(args: &[String]) -> i32 {
    match args.first().map(|s| s.as_str()) {
        Some("determinism") => {
            let prop = &args[1];
            let n: u64 = args[2].parse().unwrap();
            let start: u64 = args.get(3).and_then(|s| s.parse().ok()).unwrap_or(0);
            let seed = DEFAULT_SEED;
            let tier = std::env::var("VERIF_TIER").unwrap_or("quick".into());
            for i in start..start + n {
                let mut h = Fnv::default();
                let rs = run_seed(seed, prop, i);
                let case = check::make_case(prop, rs, i, &tier);
                let d = execute(&case, Source::Rng(mix(rs, 0xE)));
                d.outcome.log_hash.hash(&mut h);
                history_hash(&d.recs).hash(&mut h);
                d.outcome.stats.steps.hash(&mut h);
                d.outcome.clock_ns.hash(&mut h);
                let (mine, foreign) = check::evaluate(prop, &d);
                for v in mine.iter().chain(foreign.iter()) {
                    v.sig.hash(&mut h);
                    v.detail.hash(&mut h);
                }
                println!("{} {:#x}", i, h.finish());
            }
            0
        }
        _ => 2,
    }
}
