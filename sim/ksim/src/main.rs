#![recursion_limit = "512"]
//! ksim: deterministic simulation of kanal with fault injection.
//!
//!   ksim check <PROP> <quick|thorough>      driver: forks workers, merges, writes evidence, verdict
//!   ksim worker <PROP> <seed> <start> <count> <tier>
//!   ksim replay <file>
//!   ksim one <PROP> <seed> <index>          print one run (debugging)
//!   ksim selftest determinism <PROP> <n>

mod case;
mod check;
mod driver;
mod enumcases;
mod explain;
mod gen;
mod interp;
mod miri;
mod lockh;
mod shrink;
mod model;
mod seq;
mod oracle;
mod oracle2;
mod payload;
mod run;
mod util;

fn main() {
    let args: Vec<String> = std::env::args().collect();
    kanal_verif_rt::exec::install_silent_panic_hook();
    let code = match args.get(1).map(|s| s.as_str()) {
        Some("check") => driver::cmd_check(&args[2], args.get(3).map(|s| s.as_str()).unwrap_or("quick")),
        Some("worker") => driver::cmd_worker(&args[2..]),
        Some("replay") => driver::cmd_replay(&args[2]),
        Some("one") => driver::cmd_one(&args[2], args[3].parse().unwrap(), args[4].parse().unwrap()),
        Some("selftest") => driver::cmd_selftest(&args[2..]),
        _ => {
            eprintln!("usage: ksim check|worker|replay|one|selftest ...");
            2
        }
    };
    std::process::exit(code);
}
