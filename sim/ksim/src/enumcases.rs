//! Fault enumeration: systematically placed faults (every cancellation delay, every freeze point) combined
//! with seeded schedules. The enumerated parameters come from the run index, the schedule from the run seed.

use crate::case::*;
use crate::payload::Class;
use crate::util::Rng;

fn hs(side: Side, flavour: Flavour) -> HandleSpec {
    HandleSpec { side, flavour, derive: Derive::CloneAs }
}
fn plan(acts: Vec<PollAct>) -> PollPlan {
    PollPlan { never_poll: false, acts, repoll_after_ready: false }
}

pub const C15_COMBOS: u64 = 6 * 41 * 4 * 2;

/// C15: cancellation injected after every delay k in 0..=40 (decisions after the Pending poll)
pub fn c15_case(combo: u64, rng: &mut Rng) -> Case {
    let k = (combo % 41) as u16;
    let variant = (combo / 41) % 6;
    let class = [Class::SmallDrop, Class::PtrDrop, Class::Big40Drop, Class::ZstDrop][((combo / (41 * 6)) % 4) as usize];
    let cap = if (combo / (41 * 6 * 4)) % 2 == 0 { Cap::Bounded(0) } else { Cap::Bounded(1) };
    let fl = |rng: &mut Rng| if rng.chance(1, 2) { Flavour::Sync } else { Flavour::Async };
    let mut tasks = Vec::new();
    match variant {
        0 | 3 => {
            // a send future is cancelled while a receiver may be claiming it; another sender queues behind
            let first = if variant == 0 { vec![PollAct::Cancel { steps: k }] } else { vec![PollAct::Spurious { steps: k / 2, new_waker: true }, PollAct::Cancel { steps: k }] };
            let fill = if cap == Cap::Bounded(1) { vec![Op::TrySend { h: 0, id: 9 }] } else { vec![] };
            let mut ops = fill;
            ops.push(Op::ASend { h: 0, id: 0, plan: plan(first) });
            tasks.push(TaskSpec { handles: vec![hs(Side::S, fl(rng))], ops });
            tasks.push(TaskSpec { handles: vec![hs(Side::S, fl(rng))], ops: vec![Op::Yield, Op::Send { h: 0, id: 1 }] });
            tasks.push(TaskSpec {
                handles: vec![hs(Side::R, fl(rng))],
                ops: vec![Op::Yield, Op::Recv { h: 0 }, Op::RecvAll { h: 0, max: 8 }],
            });
        }
        1 | 4 => {
            // a receive future is cancelled while a sender may be delivering into it; another receiver queues behind
            let first = if variant == 1 { vec![PollAct::Cancel { steps: k }] } else { vec![PollAct::Spurious { steps: k / 2, new_waker: true }, PollAct::Cancel { steps: k }] };
            tasks.push(TaskSpec { handles: vec![hs(Side::R, fl(rng))], ops: vec![Op::ARecv { h: 0, plan: plan(first) }] });
            tasks.push(TaskSpec { handles: vec![hs(Side::R, fl(rng))], ops: vec![Op::Yield, Op::RecvAll { h: 0, max: 8 }] });
            tasks.push(TaskSpec {
                handles: vec![hs(Side::S, fl(rng))],
                ops: vec![Op::Yield, Op::Send { h: 0, id: 0 }, Op::ASend { h: 0, id: 1, plan: PollPlan::default() }],
            });
        }
        2 => {
            // an abandoned stream wait, then the stream is dropped
            tasks.push(TaskSpec {
                handles: vec![hs(Side::R, Flavour::Async)],
                ops: vec![Op::StreamOpen { h: 0 }, Op::StreamNext { plan: plan(vec![PollAct::Cancel { steps: k }]) }, Op::StreamDrop, Op::RecvAll { h: 0, max: 8 }],
            });
            tasks.push(TaskSpec { handles: vec![hs(Side::S, fl(rng))], ops: vec![Op::Yield, Op::Send { h: 0, id: 0 }, Op::Send { h: 0, id: 1 }] });
        }
        _ => {
            // close / last-handle drop racing with the cancellation
            tasks.push(TaskSpec { handles: vec![hs(Side::S, fl(rng))], ops: vec![Op::ASend { h: 0, id: 0, plan: plan(vec![PollAct::Cancel { steps: k }]) }] });
            tasks.push(TaskSpec { handles: vec![hs(Side::R, fl(rng))], ops: vec![Op::ARecv { h: 0, plan: plan(vec![PollAct::Cancel { steps: k }]) }] });
            tasks.push(TaskSpec { handles: vec![hs(Side::R, fl(rng))], ops: vec![Op::Yield, if rng.chance(1, 2) { Op::Close { h: 0 } } else { Op::TryRecv { h: 0 } }] });
        }
    }
    let mut p = crate::gen::Profile::default();
    p.faults = rng.chance(1, 2);
    p.p_monitors = 50;
    let knobs = crate::gen::gen_knobs(rng, &p);
    Case { cap, ctor: Flavour::Async, class, mask: rng.next(), knobs, tasks, main_keeps_roots: false, lock_harness: false, epilogue: vec![], balanced: false }
}

pub const C14_COMBOS: u64 = 10 * 40;

/// C14: a victim is frozen after each of its own decisions j = 1..=40 (also inside the channel's critical
/// section) while a prober runs realtime calls alone
pub fn c14_case(combo: u64, rng: &mut Rng) -> Case {
    let j = (combo % 40) as u32 + 1;
    let variant = (combo / 40) % 10;
    let cap = *rng.pick(&[Cap::Bounded(0), Cap::Bounded(1), Cap::Bounded(2)]);
    let fl = |rng: &mut Rng| if rng.chance(1, 2) { Flavour::Sync } else { Flavour::Async };
    // blocking victims hold one side only, so that they are released when the prober's handles go away
    let (victim_handles, victim_ops): (Vec<HandleSpec>, Vec<Op>) = match variant {
        0 => (vec![hs(Side::S, fl(rng))], vec![Op::Send { h: 0, id: 0 }]),
        1 => (vec![hs(Side::R, fl(rng))], vec![Op::Recv { h: 0 }]),
        2 => (vec![hs(Side::S, fl(rng))], vec![Op::SendTimeout { h: 0, id: 0, us: 20 }]),
        3 => (vec![hs(Side::R, fl(rng))], vec![Op::RecvTimeout { h: 0, us: 20 }]),
        4 => (vec![hs(Side::S, fl(rng)), hs(Side::R, fl(rng))], vec![Op::TrySend { h: 0, id: 0 }, Op::TryRecv { h: 1 }]),
        5 => (vec![hs(Side::S, fl(rng)), hs(Side::R, fl(rng))], vec![Op::TrySend { h: 0, id: 0 }, Op::Drain { h: 1, pre: 1, spare: 0 }]),
        6 => (vec![hs(Side::S, fl(rng)), hs(Side::R, fl(rng))], vec![Op::Clone { h: 0, kind: CloneKind::Same }, Op::Close { h: 1 }]),
        7 => (vec![hs(Side::S, fl(rng))], vec![Op::ASend { h: 0, id: 0, plan: PollPlan::default() }]),
        8 => (vec![hs(Side::R, fl(rng))], vec![Op::ARecv { h: 0, plan: PollPlan::default() }]),
        _ => (vec![hs(Side::S, fl(rng)), hs(Side::R, fl(rng))], vec![Op::Observe { h: 0, what: Obs::Len }, Op::DropHandle { h: 0 }, Op::DropHandle { h: 1 }]),
    };
    let mut prober = Vec::new();
    for q in 0..8u32 {
        prober.push(match q % 4 {
            0 => Op::TrySendRt { h: 0, id: 10 + q },
            1 => Op::TryRecvRt { h: 1 },
            2 => Op::TrySendOptRt { h: 0, id: 10 + q },
            _ => Op::TryRecvRt { h: 1 },
        });
    }
    let tasks = vec![
        TaskSpec { handles: victim_handles, ops: victim_ops },
        TaskSpec { handles: vec![hs(Side::S, fl(rng)), hs(Side::R, fl(rng))], ops: prober },
    ];
    let mut knobs = Knobs::default();
    knobs.policy = PolicyS::Uniform;
    knobs.spin = [*rng.pick(&[0u16, 1, 3]), *rng.pick(&[0u16, 1, 3]), *rng.pick(&[0u16, 1, 3])];
    knobs.parallelism = *rng.pick(&[1u8, 4]);
    // freeze the victim (task id 1) after j own decisions, long enough for the prober to finish alone;
    // the blocked victim is released when the prober's handles go away
    knobs.freeze = Some((1, j, 3000));
    knobs.monitors = false;
    let class = *rng.pick(&[Class::U32, Class::SmallDrop, Class::Big40Drop, Class::Usize]);
    Case { cap, ctor: Flavour::Sync, class, mask: rng.next(), knobs, tasks, main_keeps_roots: false, lock_harness: false, epilogue: vec![], balanced: false }
}
