//! The case language: a run's workload as explicit data (generated up-front from
//! the run seed, printable, shrinkable, storable in a replay file).

use crate::payload::Class;
use kanal_verif_rt::exec::{Policy, RunCfg, TimePolicy};
use serde::{Deserialize, Serialize};

#[derive(Clone, Copy, Debug, PartialEq, Eq, Hash, Serialize, Deserialize)]
pub enum Cap {
    Bounded(u8),
    Unbounded,
}
impl Cap {
    pub fn n(self) -> usize {
        match self {
            Cap::Bounded(n) => n as usize,
            Cap::Unbounded => usize::MAX,
        }
    }
}

#[derive(Clone, Copy, Debug, PartialEq, Eq, Hash, Serialize, Deserialize)]
pub enum Side {
    S,
    R,
}
#[derive(Clone, Copy, Debug, PartialEq, Eq, Hash, Serialize, Deserialize)]
pub enum Flavour {
    Sync,
    Async,
}

/// how a task's initial handle is derived from the root handle of its side
#[derive(Clone, Copy, Debug, PartialEq, Eq, Hash, Serialize, Deserialize)]
pub enum Derive {
    /// `clone()` of the root, then converted with to_sync/to_async if the flavours differ
    CloneThenConvert,
    /// `clone_sync()` / `clone_async()` of the root (whichever yields the wanted flavour; plain clone if equal)
    CloneAs,
}

#[derive(Clone, Copy, Debug, PartialEq, Eq, Hash, Serialize, Deserialize)]
pub struct HandleSpec {
    pub side: Side,
    pub flavour: Flavour,
    pub derive: Derive,
}

#[derive(Clone, Copy, Debug, PartialEq, Eq, Hash, Serialize, Deserialize)]
pub enum PollAct {
    /// wait for the latest waker to be woken, poll again with the same waker
    Wait,
    /// wait for the latest waker, then poll with a fresh waker
    WaitNewWaker,
    /// wait at most `steps` decisions, then poll anyway (spurious if not woken)
    Spurious { steps: u16, new_waker: bool },
    /// wait at most `steps` decisions (or until woken), then drop the future
    Cancel { steps: u16 },
    /// drop the future right after this Pending
    CancelNow,
}

#[derive(Clone, Debug, PartialEq, Eq, Hash, Serialize, Deserialize, Default)]
pub struct PollPlan {
    /// drop the future without ever polling it
    pub never_poll: bool,
    /// action after the i-th `Pending` (default `Wait`)
    pub acts: Vec<PollAct>,
    /// poll once more after `Ready` (must panic for futures, must keep ending for streams)
    pub repoll_after_ready: bool,
}

#[derive(Clone, Copy, Debug, PartialEq, Eq, Hash, Serialize, Deserialize)]
pub enum CloneKind {
    Same,
    Sync,
    Async,
}

#[derive(Clone, Copy, Debug, PartialEq, Eq, Hash, Serialize, Deserialize)]
pub enum Obs {
    Len,
    IsEmpty,
    IsFull,
    Capacity,
    IsBounded,
    SenderCount,
    ReceiverCount,
    IsClosed,
    IsDisconnected,
    IsTerminated,
}

#[derive(Clone, Debug, PartialEq, Eq, Hash, Serialize, Deserialize)]
pub enum Op {
    // ---- send side (sync API; on an async handle it goes through as_sync())
    Send { h: u8, id: u32 },
    SendTimeout { h: u8, id: u32, us: u32 },
    SendOptTimeout { h: u8, id: u32, us: u32 },
    TrySend { h: u8, id: u32 },
    TrySendOpt { h: u8, id: u32 },
    TrySendRt { h: u8, id: u32 },
    TrySendOptRt { h: u8, id: u32 },
    /// option variants called with `None` (documented panic)
    SendNone { h: u8, which: u8 },
    // ---- send side (async API; on a sync handle it goes through as_async())
    ASend { h: u8, id: u32, plan: PollPlan },
    // ---- receive side
    Recv { h: u8 },
    RecvTimeout { h: u8, us: u32 },
    TryRecv { h: u8 },
    TryRecvRt { h: u8 },
    /// drain_into a vector that already holds `pre` harness values and has `spare` spare capacity
    Drain { h: u8, pre: u8, spare: u8 },
    /// `Iterator::next` on a sync receiver, up to n times (stops at None)
    Iter { h: u8, n: u8 },
    ARecv { h: u8, plan: PollPlan },
    /// receive (sync or async, by the handle's flavour) until an error comes back, at most `max` times;
    /// every iteration is recorded as its own Recv / ARecv operation
    RecvAll { h: u8, max: u8 },
    StreamOpen { h: u8 },
    StreamNext { plan: PollPlan },
    StreamDrop,
    // ---- explicit future slots (single polls; C16 / C18)
    FutSend { h: u8, id: u32 },
    FutRecv { h: u8 },
    FutPoll { f: u8, new_waker: bool },
    FutDrop { f: u8 },
    /// one executor drives ALL of the task's live futures to completion (like `join!` / a single-threaded
    /// runtime): polls those that are new or woken, parks when none is; `shared_waker`: all futures get the same
    /// waker and every wake-up re-polls all pending ones (what `join!` does), otherwise one waker per future;
    /// `p_spurious` / `p_new_waker`: percentages for polling a future that was not woken / with a fresh waker.
    /// Every poll is recorded as its own `FutPoll`, every park phase as a `FutJoin` record.
    FutJoin { shared_waker: bool, p_spurious: u8, p_new_waker: u8 },
    // ---- handles
    Clone { h: u8, kind: CloneKind },
    /// to_sync / to_async (consumes the handle, puts the converted one in the same slot)
    Convert { h: u8 },
    DropHandle { h: u8 },
    Close { h: u8 },
    Observe { h: u8, what: Obs },
    // ---- lock harness (C17): the internal lock through kanal::verif::Mutex
    MLock { hold: u8 },
    MTryLock { hold: u8 },
    // ---- environment
    Yield,
    AdvanceClock { us: u32 },
}

impl Op {
    pub fn kind(&self) -> &'static str {
        match self {
            Op::Send { .. } => "send",
            Op::SendTimeout { .. } => "send_timeout",
            Op::SendOptTimeout { .. } => "send_option_timeout",
            Op::TrySend { .. } => "try_send",
            Op::TrySendOpt { .. } => "try_send_option",
            Op::TrySendRt { .. } => "try_send_realtime",
            Op::TrySendOptRt { .. } => "try_send_option_realtime",
            Op::SendNone { .. } => "send_none",
            Op::ASend { .. } => "async_send",
            Op::Recv { .. } => "recv",
            Op::RecvTimeout { .. } => "recv_timeout",
            Op::TryRecv { .. } => "try_recv",
            Op::TryRecvRt { .. } => "try_recv_realtime",
            Op::Drain { .. } => "drain_into",
            Op::Iter { .. } => "iter",
            Op::ARecv { .. } => "async_recv",
            Op::RecvAll { .. } => "recv_all",
            Op::StreamOpen { .. } => "stream_open",
            Op::StreamNext { .. } => "stream_next",
            Op::StreamDrop => "stream_drop",
            Op::FutSend { .. } => "fut_send",
            Op::FutRecv { .. } => "fut_recv",
            Op::FutPoll { .. } => "fut_poll",
            Op::FutDrop { .. } => "fut_drop",
            Op::FutJoin { .. } => "fut_join",
            Op::Clone { .. } => "clone",
            Op::Convert { .. } => "convert",
            Op::DropHandle { .. } => "drop_handle",
            Op::Close { .. } => "close",
            Op::Observe { .. } => "observe",
            Op::MLock { .. } => "lock",
            Op::MTryLock { .. } => "try_lock",
            Op::Yield => "yield",
            Op::AdvanceClock { .. } => "advance_clock",
        }
    }
    pub fn send_id(&self) -> Option<u32> {
        match self {
            Op::Send { id, .. }
            | Op::SendTimeout { id, .. }
            | Op::SendOptTimeout { id, .. }
            | Op::TrySend { id, .. }
            | Op::TrySendOpt { id, .. }
            | Op::TrySendRt { id, .. }
            | Op::TrySendOptRt { id, .. }
            | Op::ASend { id, .. }
            | Op::FutSend { id, .. } => Some(*id),
            _ => None,
        }
    }
    pub fn is_send_like(&self) -> bool {
        self.send_id().is_some()
    }
    pub fn is_recv_like(&self) -> bool {
        matches!(
            self,
            Op::Recv { .. }
                | Op::RecvTimeout { .. }
                | Op::TryRecv { .. }
                | Op::TryRecvRt { .. }
                | Op::Drain { .. }
                | Op::Iter { .. }
                | Op::ARecv { .. }
                | Op::StreamNext { .. }
                | Op::FutRecv { .. }
        )
    }
}

#[derive(Clone, Debug, PartialEq, Eq, Hash, Serialize, Deserialize)]
pub struct TaskSpec {
    pub handles: Vec<HandleSpec>,
    pub ops: Vec<Op>,
}

#[derive(Clone, Copy, Debug, PartialEq, Eq, Hash, Serialize, Deserialize)]
pub enum PolicyS {
    Uniform,
    Sticky(u8),
    Pct(u8),
}
#[derive(Clone, Copy, Debug, PartialEq, Eq, Hash, Serialize, Deserialize)]
pub enum TimeS {
    Tick,
    Coarse,
    Jumpy(u32),
}

/// the per-run swarm configuration (knobs + enabled fault kinds + rates)
#[derive(Clone, Debug, PartialEq, Eq, Hash, Serialize, Deserialize)]
pub struct Knobs {
    pub policy: PolicyS,
    pub time: TimeS,
    pub p_stall: u16,
    pub stall_max: u32,
    pub p_cs_freeze: u16,
    pub p_spurious_park: u16,
    pub spin: [u16; 3],
    pub parallelism: u8,
    pub monitors: bool,
    pub max_steps: u32,
    /// enumerated freeze: (task, after own decisions, duration in decisions)
    #[serde(default)]
    pub freeze: Option<(u8, u32, u32)>,
}

impl Default for Knobs {
    fn default() -> Self {
        Knobs {
            policy: PolicyS::Uniform,
            time: TimeS::Tick,
            p_stall: 0,
            stall_max: 0,
            p_cs_freeze: 0,
            p_spurious_park: 0,
            spin: [u16::MAX; 3],
            parallelism: 4,
            monitors: true,
            max_steps: 400_000,
            freeze: None,
        }
    }
}

impl Knobs {
    pub fn to_cfg(&self, est_len: u32) -> RunCfg {
        RunCfg {
            policy: match self.policy {
                PolicyS::Uniform => Policy::Uniform,
                PolicyS::Sticky(q) => Policy::Sticky(q),
                PolicyS::Pct(d) => Policy::Pct(d),
            },
            time: match self.time {
                TimeS::Tick => TimePolicy::Tick,
                TimeS::Coarse => TimePolicy::Coarse,
                TimeS::Jumpy(m) => TimePolicy::Jumpy(m as u64 * 1000),
            },
            p_stall: self.p_stall,
            stall_max: self.stall_max,
            p_cs_freeze: self.p_cs_freeze,
            p_spurious_park: self.p_spurious_park,
            spin: self.spin,
            parallelism: self.parallelism as usize,
            max_steps: self.max_steps as u64,
            est_len,
            monitors: self.monitors,
            freeze: self.freeze.map(|(t, a, d)| (t as usize, a as u64, d as u64)),
        }
    }
}

#[derive(Clone, Debug, PartialEq, Eq, Hash, Serialize, Deserialize)]
pub struct Case {
    pub cap: Cap,
    /// which constructor: bounded/unbounded (Sync) or bounded_async/unbounded_async (Async)
    pub ctor: Flavour,
    pub class: Class,
    /// xor mask applied to payload encodings (bit-pattern coverage)
    pub mask: u64,
    pub knobs: Knobs,
    pub tasks: Vec<TaskSpec>,
    /// main keeps its two root handles until all tasks are done (only in generators
    /// whose tasks never block indefinitely)
    pub main_keeps_roots: bool,
    /// C17: the tasks contend on the internal lock instead of using a channel
    #[serde(default)]
    pub lock_harness: bool,
    /// quiescent epilogue run by main after all tasks have finished (needs main_keeps_roots;
    /// handle 0 = sender root, handle 1 = receiver root)
    #[serde(default)]
    pub epilogue: Vec<Op>,
    /// "balanced executors" workload: total sends == total receives, executor tasks issue all their futures
    /// before joining them, the other tasks are one-sided, nobody closes and main keeps the roots: every
    /// operation completes in every schedule by specification. The shrinker must not drop operations.
    #[serde(default)]
    pub balanced: bool,
}

impl Case {
    pub fn n_ops(&self) -> usize {
        self.tasks.iter().map(|t| t.ops.len()).sum()
    }
    /// hash of what the workload *is* (capacity, constructor, payload class, tasks, epilogue) without the
    /// payload bit mask and the scheduler / fault knobs: two runs of the same shape under different schedules
    /// count as distinct only if their histories differ
    pub fn shape_hash(&self) -> u64 {
        use std::hash::{Hash, Hasher};
        let mut h = crate::util::Fnv::default();
        self.cap.hash(&mut h);
        self.ctor.hash(&mut h);
        self.class.hash(&mut h);
        self.tasks.hash(&mut h);
        self.epilogue.hash(&mut h);
        self.knobs.freeze.hash(&mut h);
        h.finish()
    }
    pub fn hash64(&self) -> u64 {
        use std::hash::{Hash, Hasher};
        let mut h = crate::util::Fnv::default();
        self.hash(&mut h);
        h.finish()
    }
}
