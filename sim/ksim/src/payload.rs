//! Payload classes (the harness is monomorphised over them) and the ledger that
//! accounts for every value: created, moved in, received, dropped.
//!
//! No payload owns heap memory: a double drop or a stale read is *recorded*
//! instead of corrupting the simulator.

use kanal_verif_rt as rt;
use serde::{Deserialize, Serialize};
use std::cell::RefCell;

#[derive(Clone, Copy, Debug, PartialEq, Eq, Hash, Serialize, Deserialize, PartialOrd, Ord)]
pub enum Class {
    Zst,
    ZstDrop,
    ZstAlign64,
    U8,
    U16,
    U32,
    SmallDrop,
    PadSmall,
    Usize,
    PtrDrop,
    Big24,
    Padded,
    Big40Drop,
}

pub const ALL_CLASSES: &[Class] = &[
    Class::Zst,
    Class::ZstDrop,
    Class::ZstAlign64,
    Class::U8,
    Class::U16,
    Class::U32,
    Class::SmallDrop,
    Class::PadSmall,
    Class::Usize,
    Class::PtrDrop,
    Class::Big24,
    Class::Padded,
    Class::Big40Drop,
];

impl Class {
    pub fn has_id(self) -> bool {
        !matches!(self, Class::Zst | Class::ZstDrop | Class::ZstAlign64)
    }
    pub fn tracks_drop(self) -> bool {
        matches!(self, Class::ZstDrop | Class::SmallDrop | Class::PtrDrop | Class::Big40Drop)
    }
    pub fn size_class(self) -> &'static str {
        match self {
            Class::Zst | Class::ZstDrop | Class::ZstAlign64 => "zero",
            Class::U8 | Class::U16 | Class::U32 | Class::SmallDrop | Class::PadSmall => "lt_ptr",
            Class::Usize | Class::PtrDrop => "eq_ptr",
            _ => "gt_ptr",
        }
    }
}

#[derive(Clone, Debug, PartialEq, Eq, Serialize, Deserialize, Hash)]
pub enum Ident {
    Id(u32),
    Zst,
    /// bytes that decode to no value the harness ever made
    Bad(String),
}

pub trait Payload: Sized + 'static {
    const CLASS: Class;
    fn make(id: u32) -> Self;
    fn ident(&self) -> Ident;
}

// ------------------------------------------------------------------ ledger

#[derive(Clone, Debug, Default)]
pub struct DropRec {
    pub stamp: u64,
    pub task: usize,
    pub ctx: u64,
}

#[derive(Clone, Debug, Default)]
pub struct Entry {
    pub created: bool,
    pub drops: Vec<DropRec>,
}

#[derive(Default)]
pub struct Ledger {
    pub mask: u64,
    pub entries: Vec<Entry>,
    pub zst_created: u64,
    pub zst_dropped: u64,
    pub zst_drops: Vec<DropRec>,
    pub next_aux: u32,
}

thread_local! {
    pub static LEDGER: RefCell<Ledger> = RefCell::new(Ledger::default());
}

pub fn reset(mask: u64) {
    LEDGER.with(|l| {
        let mut l = l.borrow_mut();
        *l = Ledger::default();
        l.mask = mask;
    })
}

/// ids for harness-made values that are not part of the case (192..=255)
pub fn aux_id() -> u32 {
    LEDGER.with(|l| {
        let mut l = l.borrow_mut();
        let id = 192 + l.next_aux;
        l.next_aux += 1;
        assert!(id < 256, "too many auxiliary values in one run");
        id
    })
}

fn mask() -> u64 {
    LEDGER.with(|l| l.borrow().mask)
}

fn created(id: u32) {
    LEDGER.with(|l| {
        let mut l = l.borrow_mut();
        let i = id as usize;
        if l.entries.len() <= i {
            l.entries.resize(i + 1, Entry::default());
        }
        l.entries[i].created = true;
    })
}

fn created_zst() {
    LEDGER.with(|l| l.borrow_mut().zst_created += 1)
}

/// called from the payloads' Drop impls
fn dropped(id: Option<u32>, raw: u64) {
    let task = rt::current();
    let rec = DropRec { stamp: rt::stamp(), task, ctx: rt::exec::ctx_of(task) };
    let bad: Option<(&'static str, String)> = LEDGER.with(|l| {
        let mut l = l.borrow_mut();
        match id {
            Some(id) if (id as usize) < l.entries.len() && l.entries[id as usize].created => {
                let e = &mut l.entries[id as usize];
                e.drops.push(rec.clone());
                if e.drops.len() > 1 {
                    Some((
                        "ledger/double-drop",
                        format!(
                            "value id {} dropped a second time (first by task {} ctx {:#x}, now by task {} ctx {:#x})",
                            id, e.drops[0].task, e.drops[0].ctx, rec.task, rec.ctx
                        ),
                    ))
                } else {
                    None
                }
            }
            _ => Some((
                "ledger/drop-of-garbage",
                format!("drop glue ran on bytes {:#x} that are no live value (task {} ctx {:#x})", raw, rec.task, rec.ctx),
            )),
        }
    });
    if let Some((sig, d)) = bad {
        if rt::exec::active() {
            rt::violation(sig, d);
        }
    }
}

fn dropped_zst() {
    let task = rt::current();
    let rec = DropRec { stamp: rt::stamp(), task, ctx: rt::exec::ctx_of(task) };
    let bad = LEDGER.with(|l| {
        let mut l = l.borrow_mut();
        l.zst_dropped += 1;
        l.zst_drops.push(rec.clone());
        l.zst_dropped > l.zst_created
    });
    if bad && rt::exec::active() {
        rt::violation(
            "ledger/double-drop",
            format!("more zero-sized values dropped than were created (task {} ctx {:#x})", rec.task, rec.ctx),
        );
    }
}

pub fn snapshot() -> (Vec<Entry>, u64, u64, Vec<DropRec>) {
    LEDGER.with(|l| {
        let l = l.borrow();
        (l.entries.clone(), l.zst_created, l.zst_dropped, l.zst_drops.clone())
    })
}

#[inline]
fn h32(x: u32) -> u32 {
    let mut z = x.wrapping_mul(0x9E3779B1) ^ 0x85EBCA6B;
    z ^= z >> 15;
    z = z.wrapping_mul(0xC2B2AE35);
    z ^ (z >> 13)
}
#[inline]
fn h64(x: u64) -> u64 {
    rt::exec::mix(x, 0x1234_5678_9ABC_DEF1)
}

fn known(id: u32) -> bool {
    LEDGER.with(|l| {
        let l = l.borrow();
        (id as usize) < l.entries.len() && l.entries[id as usize].created
    })
}

// ------------------------------------------------------------------ classes

pub struct Zst;
impl Payload for Zst {
    const CLASS: Class = Class::Zst;
    fn make(_id: u32) -> Self {
        created_zst();
        Zst
    }
    fn ident(&self) -> Ident {
        Ident::Zst
    }
}

pub struct ZstDrop;
impl Payload for ZstDrop {
    const CLASS: Class = Class::ZstDrop;
    fn make(_id: u32) -> Self {
        created_zst();
        ZstDrop
    }
    fn ident(&self) -> Ident {
        Ident::Zst
    }
}
impl Drop for ZstDrop {
    fn drop(&mut self) {
        dropped_zst()
    }
}

#[repr(align(64))]
pub struct ZstAlign64;
impl Payload for ZstAlign64 {
    const CLASS: Class = Class::ZstAlign64;
    fn make(_id: u32) -> Self {
        created_zst();
        ZstAlign64
    }
    fn ident(&self) -> Ident {
        if (self as *const Self as usize) % 64 != 0 {
            return Ident::Bad("misaligned over-aligned ZST".into());
        }
        Ident::Zst
    }
}

pub struct U8(u8);
impl Payload for U8 {
    const CLASS: Class = Class::U8;
    fn make(id: u32) -> Self {
        created(id);
        U8((id as u8) ^ (mask() as u8))
    }
    fn ident(&self) -> Ident {
        let id = (self.0 ^ (mask() as u8)) as u32;
        if known(id) {
            Ident::Id(id)
        } else {
            Ident::Bad(format!("u8 {:#x}", self.0))
        }
    }
}

pub struct U16(u16);
impl Payload for U16 {
    const CLASS: Class = Class::U16;
    fn make(id: u32) -> Self {
        created(id);
        let v = ((id as u16) & 0xFF) | (((h32(id) as u16) & 0xFF) << 8);
        U16(v ^ (mask() as u16))
    }
    fn ident(&self) -> Ident {
        let v = self.0 ^ (mask() as u16);
        let id = (v & 0xFF) as u32;
        if ((h32(id) as u16) & 0xFF) == (v >> 8) && known(id) {
            Ident::Id(id)
        } else {
            Ident::Bad(format!("u16 {:#x}", self.0))
        }
    }
}

fn enc32(id: u32) -> u32 {
    ((id & 0xFFFF) | ((h32(id) & 0xFFFF) << 16)) ^ (mask() as u32)
}
fn dec32(raw: u32) -> Option<u32> {
    let v = raw ^ (mask() as u32);
    let id = v & 0xFFFF;
    if (h32(id) & 0xFFFF) == (v >> 16) && known(id) {
        Some(id)
    } else {
        None
    }
}
fn enc64(id: u32) -> u64 {
    ((id as u64) | ((h32(id) as u64) << 32)) ^ mask()
}
fn dec64(raw: u64) -> Option<u32> {
    let v = raw ^ mask();
    let id = v as u32;
    if h32(id) as u64 == (v >> 32) && known(id) {
        Some(id)
    } else {
        None
    }
}

pub struct U32(u32);
impl Payload for U32 {
    const CLASS: Class = Class::U32;
    fn make(id: u32) -> Self {
        created(id);
        U32(enc32(id))
    }
    fn ident(&self) -> Ident {
        dec32(self.0).map(Ident::Id).unwrap_or_else(|| Ident::Bad(format!("u32 {:#x}", self.0)))
    }
}

pub struct SmallDrop(u32);
impl Payload for SmallDrop {
    const CLASS: Class = Class::SmallDrop;
    fn make(id: u32) -> Self {
        created(id);
        SmallDrop(enc32(id))
    }
    fn ident(&self) -> Ident {
        dec32(self.0).map(Ident::Id).unwrap_or_else(|| Ident::Bad(format!("smalldrop {:#x}", self.0)))
    }
}
impl Drop for SmallDrop {
    fn drop(&mut self) {
        dropped(dec32(self.0), self.0 as u64)
    }
}

/// 4 bytes with one byte of padding inside
#[repr(C)]
pub struct PadSmall {
    a: u8,
    b: u16,
}
impl Payload for PadSmall {
    const CLASS: Class = Class::PadSmall;
    fn make(id: u32) -> Self {
        created(id);
        let m = mask();
        PadSmall { a: (id as u8) ^ (m as u8), b: (((id & 0xFF) as u16) | (((h32(id) & 0xFF) as u16) << 8)) ^ ((m >> 8) as u16) }
    }
    fn ident(&self) -> Ident {
        let m = mask();
        let ida = (self.a ^ (m as u8)) as u32;
        let v = self.b ^ ((m >> 8) as u16);
        let idb = (v & 0xFF) as u32;
        if ida == idb && ((h32(idb) & 0xFF) as u16) == (v >> 8) && known(idb) {
            Ident::Id(idb)
        } else {
            Ident::Bad(format!("padsmall {:#x}/{:#x}", self.a, self.b))
        }
    }
}

pub struct Usize(u64);
impl Payload for Usize {
    const CLASS: Class = Class::Usize;
    fn make(id: u32) -> Self {
        created(id);
        Usize(enc64(id))
    }
    fn ident(&self) -> Ident {
        dec64(self.0).map(Ident::Id).unwrap_or_else(|| Ident::Bad(format!("usize {:#x}", self.0)))
    }
}

pub struct PtrDrop(u64);
impl Payload for PtrDrop {
    const CLASS: Class = Class::PtrDrop;
    fn make(id: u32) -> Self {
        created(id);
        PtrDrop(enc64(id))
    }
    fn ident(&self) -> Ident {
        dec64(self.0).map(Ident::Id).unwrap_or_else(|| Ident::Bad(format!("ptrdrop {:#x}", self.0)))
    }
}
impl Drop for PtrDrop {
    fn drop(&mut self) {
        dropped(dec64(self.0), self.0)
    }
}

pub struct Big24 {
    a: u64,
    b: u64,
    c: u64,
}
impl Payload for Big24 {
    const CLASS: Class = Class::Big24;
    fn make(id: u32) -> Self {
        created(id);
        let a = enc64(id);
        Big24 { a, b: !a.rotate_left(17), c: h64(a) }
    }
    fn ident(&self) -> Ident {
        match dec64(self.a) {
            Some(id) if self.b == !self.a.rotate_left(17) && self.c == h64(self.a) => Ident::Id(id),
            _ => Ident::Bad(format!("big24 {:#x},{:#x},{:#x}", self.a, self.b, self.c)),
        }
    }
}

/// larger than a pointer, with 7 bytes of padding inside
#[repr(C)]
pub struct Padded {
    a: u8,
    b: u64,
}
impl Payload for Padded {
    const CLASS: Class = Class::Padded;
    fn make(id: u32) -> Self {
        created(id);
        Padded { a: (id as u8) ^ ((mask() >> 16) as u8), b: enc64(id) }
    }
    fn ident(&self) -> Ident {
        match dec64(self.b) {
            Some(id) if self.a == (id as u8) ^ ((mask() >> 16) as u8) => Ident::Id(id),
            _ => Ident::Bad(format!("padded {:#x},{:#x}", self.a, self.b)),
        }
    }
}

pub struct Big40Drop {
    a: u64,
    fill: [u64; 4],
}
impl Big40Drop {
    fn dec(&self) -> Option<u32> {
        let id = dec64(self.a)?;
        for (i, f) in self.fill.iter().enumerate() {
            if *f != h64(self.a ^ (i as u64 + 1)) {
                return None;
            }
        }
        Some(id)
    }
}
impl Payload for Big40Drop {
    const CLASS: Class = Class::Big40Drop;
    fn make(id: u32) -> Self {
        created(id);
        let a = enc64(id);
        let mut fill = [0u64; 4];
        for (i, f) in fill.iter_mut().enumerate() {
            *f = h64(a ^ (i as u64 + 1));
        }
        Big40Drop { a, fill }
    }
    fn ident(&self) -> Ident {
        self.dec().map(Ident::Id).unwrap_or_else(|| Ident::Bad(format!("big40 {:#x},{:#x}..", self.a, self.fill[0])))
    }
}
impl Drop for Big40Drop {
    fn drop(&mut self) {
        dropped(self.dec(), self.a)
    }
}

/// dispatch a generic function over the payload class
#[macro_export]
macro_rules! with_class {
    ($class:expr, $f:ident ( $($arg:expr),* )) => {
        match $class {
            $crate::payload::Class::Zst => $f::<$crate::payload::Zst>($($arg),*),
            $crate::payload::Class::ZstDrop => $f::<$crate::payload::ZstDrop>($($arg),*),
            $crate::payload::Class::ZstAlign64 => $f::<$crate::payload::ZstAlign64>($($arg),*),
            $crate::payload::Class::U8 => $f::<$crate::payload::U8>($($arg),*),
            $crate::payload::Class::U16 => $f::<$crate::payload::U16>($($arg),*),
            $crate::payload::Class::U32 => $f::<$crate::payload::U32>($($arg),*),
            $crate::payload::Class::SmallDrop => $f::<$crate::payload::SmallDrop>($($arg),*),
            $crate::payload::Class::PadSmall => $f::<$crate::payload::PadSmall>($($arg),*),
            $crate::payload::Class::Usize => $f::<$crate::payload::Usize>($($arg),*),
            $crate::payload::Class::PtrDrop => $f::<$crate::payload::PtrDrop>($($arg),*),
            $crate::payload::Class::Big24 => $f::<$crate::payload::Big24>($($arg),*),
            $crate::payload::Class::Padded => $f::<$crate::payload::Padded>($($arg),*),
            $crate::payload::Class::Big40Drop => $f::<$crate::payload::Big40Drop>($($arg),*),
        }
    };
}
