//! History oracles: real-time predicates over the stamped history of one run
//! plus the ledger. Each returns violations as (signature, detail); a signature
//! never contains ids, stamps or addresses.

use crate::case::*;
use crate::interp::{OptAfter, Rec, Res, E, PH_CALL};
use crate::payload::{DropRec, Entry, Ident};
use kanal_verif_rt::exec::{Abort, Outcome};
use std::collections::BTreeMap;

#[derive(Clone, Debug, PartialEq)]
pub struct Violation {
    pub sig: String,
    pub detail: String,
}
fn v(sig: impl Into<String>, detail: impl Into<String>) -> Violation {
    Violation { sig: sig.into(), detail: detail.into() }
}

#[derive(Clone, Debug)]
pub struct WakerInfo {
    pub task: usize,
    pub rec: usize,
    pub latest_wakes: u32,
    pub older_wakes: u32,
    pub n_wakers: usize,
}

pub struct RunData {
    pub case: Case,
    pub recs: Vec<Rec>,
    pub outcome: Outcome,
    pub entries: Vec<Entry>,
    pub zst_created: u64,
    pub zst_dropped: u64,
    pub zst_drops: Vec<DropRec>,
    pub stuck_wakers: Vec<WakerInfo>,
    pub counters: [u64; 8],
}

#[derive(Clone, Copy, Debug, PartialEq, Eq)]
pub enum SendStatus {
    Ok,
    Failed,
    /// future dropped before completion: may or may not have been delivered
    Cancelled,
    /// future dropped without ever being polled: certainly not delivered
    NeverStarted,
    Incomplete,
}

#[derive(Clone, Debug)]
pub struct SendEv {
    pub id: u32,
    pub task: u8,
    pub rec: usize,
    pub kind: &'static str,
    pub inv: u64,
    pub ret: u64,
    pub reg: Option<u64>,
    pub status: SendStatus,
    pub err: Option<E>,
}
impl SendEv {
    /// the stamp from which the value is certainly inside the channel
    pub fn accept(&self) -> u64 {
        match self.reg {
            Some(r) if r < self.ret || self.ret == 0 => r,
            _ => self.ret,
        }
    }
}

#[derive(Clone, Debug)]
pub struct RecvEv {
    pub ident: Ident,
    pub task: u8,
    pub rec: usize,
    pub pos: usize,
    pub kind: &'static str,
    pub inv: u64,
    pub ret: u64,
}

#[derive(Clone, Copy, Debug, PartialEq, Eq)]
pub enum DropWhere {
    Close,
    HandleDrop,
    RecvCancel,
    SendSide,
    Harness,
    Other,
}

pub struct Analysis<'a> {
    pub d: &'a RunData,
    pub sends: Vec<SendEv>,
    pub recvs: Vec<RecvEv>,
    pub send_by_id: BTreeMap<u32, usize>,
    pub recv_by_id: BTreeMap<u32, Vec<usize>>,
    /// recs of receive futures that were dropped while pending (may have consumed a value)
    pub cancelled_recvs: Vec<usize>,
    pub completed: bool,
}

impl<'a> Analysis<'a> {
    pub fn new(d: &'a RunData) -> Analysis<'a> {
        let mut sends = Vec::new();
        let mut recvs = Vec::new();
        let mut cancelled_recvs = Vec::new();
        // explicit future slots, per task
        #[derive(Clone)]
        struct Slot {
            is_send: bool,
            id: u32,
            create: usize,
            polled: bool,
            done: bool,
            send_ix: Option<usize>,
        }
        let ntasks = d.case.tasks.len() + 1;
        let mut slots: Vec<Vec<Slot>> = vec![Vec::new(); ntasks];
        let mut stream_pending: Vec<Option<usize>> = vec![None; ntasks];
        for (ri, r) in d.recs.iter().enumerate() {
            let t = r.task as usize;
            let kind = r.op.kind();
            match (&r.op, &r.res) {
                (Op::FutSend { id, .. }, Res::Unit) => {
                    sends.push(SendEv {
                        id: *id,
                        task: r.task,
                        rec: ri,
                        kind,
                        inv: r.inv,
                        ret: 0,
                        reg: None,
                        status: SendStatus::NeverStarted,
                        err: None,
                    });
                    slots[t].push(Slot { is_send: true, id: *id, create: ri, polled: false, done: false, send_ix: Some(sends.len() - 1) });
                }
                (Op::FutRecv { .. }, Res::Unit) => {
                    slots[t].push(Slot { is_send: false, id: 0, create: ri, polled: false, done: false, send_ix: None });
                }
                (Op::FutPoll { f, .. }, res) => {
                    if let Some(s) = slots[t].get_mut(*f as usize) {
                        if matches!(res, Res::Skipped) {
                            continue;
                        }
                        let create = s.create;
                        if s.is_send {
                            let ev = &mut sends[s.send_ix.unwrap()];
                            if !s.polled {
                                ev.inv = r.inv;
                            }
                            if r.reg.is_some() && ev.reg.is_none() {
                                ev.reg = r.reg;
                            }
                            match res {
                                Res::Pending => ev.status = SendStatus::Cancelled,
                                Res::SendOk => {
                                    ev.status = SendStatus::Ok;
                                    ev.ret = r.ret;
                                    s.done = true;
                                }
                                Res::SendErr(e) => {
                                    ev.status = SendStatus::Failed;
                                    ev.err = Some(*e);
                                    ev.ret = r.ret;
                                    s.done = true;
                                }
                                _ => {}
                            }
                        } else {
                            match res {
                                Res::RecvOk(id) => {
                                    recvs.push(RecvEv {
                                        ident: id.clone(),
                                        task: r.task,
                                        rec: ri,
                                        pos: 0,
                                        kind: "fut_recv",
                                        inv: d.recs[create].inv,
                                        ret: r.ret,
                                    });
                                    s.done = true;
                                }
                                Res::RecvErr(_) => s.done = true,
                                _ => {}
                            }
                        }
                        s.polled = true;
                    }
                }
                (Op::FutDrop { f }, Res::Unit) => {
                    if let Some(s) = slots[t].get_mut(*f as usize) {
                        if s.is_send {
                            let ev = &mut sends[s.send_ix.unwrap()];
                            if ev.status == SendStatus::Cancelled || ev.status == SendStatus::NeverStarted {
                                ev.ret = r.ret;
                            }
                        } else if s.polled && !s.done {
                            cancelled_recvs.push(ri);
                        }
                    }
                }
                (op, res) if op.is_send_like() => {
                    let id = op.send_id().unwrap();
                    let (status, err) = match res {
                        Res::SendOk => (SendStatus::Ok, None),
                        Res::SendRefused => (SendStatus::Failed, None),
                        Res::SendErr(e) => (SendStatus::Failed, Some(*e)),
                        Res::Cancelled => {
                            if r.polls == 0 {
                                (SendStatus::NeverStarted, None)
                            } else {
                                (SendStatus::Cancelled, None)
                            }
                        }
                        Res::Skipped => continue,
                        _ => (SendStatus::Incomplete, None),
                    };
                    sends.push(SendEv { id, task: r.task, rec: ri, kind, inv: r.inv, ret: r.ret, reg: r.reg, status, err });
                }
                (Op::StreamNext { .. }, Res::Cancelled) => stream_pending[t] = Some(ri),
                (Op::StreamNext { .. }, Res::RecvOk(id)) => {
                    // the stream's inner future may have been registered by an earlier, abandoned next()
                    let inv = stream_pending[t].take().map(|p| d.recs[p].inv).unwrap_or(r.inv);
                    recvs.push(RecvEv { ident: id.clone(), task: r.task, rec: ri, pos: 0, kind, inv, ret: r.ret });
                }
                (Op::StreamNext { .. }, _) => {
                    stream_pending[t] = None;
                }
                (Op::StreamDrop, Res::Unit) => {
                    if stream_pending[t].take().is_some() {
                        cancelled_recvs.push(ri);
                    }
                }
                (Op::ARecv { .. }, Res::Cancelled) => {
                    if r.polls > 0 {
                        cancelled_recvs.push(ri);
                    }
                }
                (_, Res::RecvOk(id)) => {
                    recvs.push(RecvEv { ident: id.clone(), task: r.task, rec: ri, pos: 0, kind, inv: r.inv, ret: r.ret })
                }
                (_, Res::Drained { appended, .. }) => {
                    for (p, id) in appended.iter().enumerate() {
                        recvs.push(RecvEv { ident: id.clone(), task: r.task, rec: ri, pos: p, kind, inv: r.inv, ret: r.ret });
                    }
                }
                (_, Res::IterVals(vals)) => {
                    for (p, id) in vals.iter().enumerate() {
                        recvs.push(RecvEv { ident: id.clone(), task: r.task, rec: ri, pos: p, kind, inv: r.inv, ret: r.ret });
                    }
                }
                _ => {}
            }
        }
        let mut send_by_id = BTreeMap::new();
        for (i, s) in sends.iter().enumerate() {
            send_by_id.insert(s.id, i);
        }
        let mut recv_by_id: BTreeMap<u32, Vec<usize>> = BTreeMap::new();
        for (i, r) in recvs.iter().enumerate() {
            if let Ident::Id(id) = r.ident {
                recv_by_id.entry(id).or_default().push(i);
            }
        }
        let completed = d.outcome.abort.is_none();
        Analysis { d, sends, recvs, send_by_id, recv_by_id, cancelled_recvs, completed }
    }

    pub fn drop_where(&self, dr: &DropRec) -> (DropWhere, usize) {
        let ri = (dr.ctx >> 8) as usize;
        let phase = dr.ctx & 0xFF;
        if ri >= self.d.recs.len() {
            return (DropWhere::Other, ri);
        }
        if phase != PH_CALL {
            return (DropWhere::Harness, ri);
        }
        let r = &self.d.recs[ri];
        let w = match &r.op {
            Op::Close { .. } => DropWhere::Close,
            Op::DropHandle { .. } => DropWhere::HandleDrop,
            Op::StreamDrop => {
                if self.cancelled_recvs.contains(&ri) {
                    DropWhere::RecvCancel
                } else {
                    DropWhere::Other
                }
            }
            Op::ARecv { .. } if r.res == Res::Cancelled || r.res == Res::Incomplete => DropWhere::RecvCancel,
            Op::FutDrop { .. } => {
                if self.cancelled_recvs.contains(&ri) {
                    DropWhere::RecvCancel
                } else {
                    DropWhere::SendSide
                }
            }
            Op::FutPoll { .. } => DropWhere::SendSide,
            op if op.is_send_like() => DropWhere::SendSide,
            _ => DropWhere::Other,
        };
        (w, ri)
    }
}

fn abort_violation(d: &RunData) -> Option<Violation> {
    match &d.outcome.abort {
        None => None,
        Some(Abort::Violation(sig, det)) => {
            // attach the op kind of the task that was running
            Some(v(sig.clone(), det.clone()))
        }
        Some(Abort::Panic(m)) => {
            let loc = m.rsplit(" @ ").next().unwrap_or("").to_string();
            Some(v(format!("panic/undocumented@{}", loc), m.clone()))
        }
        Some(Abort::Deadlock) | Some(Abort::StepBound) => {
            let mut kinds: Vec<String> = Vec::new();
            let mut det = String::new();
            for r in d.recs.iter() {
                if r.res == Res::Incomplete {
                    kinds.push(r.op.kind().to_string());
                    det.push_str(&format!("task {} stuck in {:?} (polls {}); ", r.task, r.op, r.polls));
                }
            }
            kinds.sort();
            kinds.dedup();
            let mut stale_kinds: Vec<String> = Vec::new();
            for w in d.stuck_wakers.iter() {
                det.push_str(&format!(
                    "task {}: latest waker woken {}x, older wakers woken {}x ({} wakers); ",
                    w.task, w.latest_wakes, w.older_wakes, w.n_wakers
                ));
                if w.latest_wakes == 0 && w.older_wakes > 0 {
                    stale_kinds.push(d.recs[w.rec].op.kind().to_string());
                }
            }
            stale_kinds.sort();
            stale_kinds.dedup();
            let how = if matches!(d.outcome.abort, Some(Abort::Deadlock)) { "deadlock" } else { "step-bound" };
            let sig = if !stale_kinds.is_empty() {
                format!("hang/stale-waker@{}", stale_kinds.join("+"))
            } else {
                format!("hang/{}@{}", how, kinds.join("+"))
            };
            Some(v(sig, format!("{}: {}", how, det)))
        }
        Some(Abort::Diverged(m)) => Some(v("harness/diverged", m.clone())),
    }
}

/// everything the in-run monitors and the engine reported (hang, panic, hb, life, cs, ledger-immediate)
pub fn o_abort(a: &Analysis) -> Vec<Violation> {
    abort_violation(a.d).into_iter().collect()
}

/// O-ledger(delivery): C01
pub fn o_delivery(a: &Analysis) -> Vec<Violation> {
    let mut out = Vec::new();
    // invented / corrupted
    for r in a.recvs.iter() {
        match &r.ident {
            Ident::Bad(s) => out.push(v(format!("ledger/invented@{}", r.kind), format!("{} returned bytes that are no sent value: {}", r.kind, s))),
            Ident::Id(id) => {
                if !a.send_by_id.contains_key(id) && *id < 192 {
                    out.push(v(format!("ledger/invented@{}", r.kind), format!("{} returned id {} that no send supplied", r.kind, id)));
                }
            }
            Ident::Zst => {}
        }
    }
    // duplicates
    for (id, rs) in a.recv_by_id.iter() {
        if rs.len() > 1 {
            let k: Vec<&str> = rs.iter().map(|i| a.recvs[*i].kind).collect();
            out.push(v(
                format!("ledger/dup-receive@{}", k.join("+")),
                format!("value id {} was returned by {} receive operations ({:?})", id, rs.len(), k),
            ));
        }
    }
    // a failed send handed its value to nobody
    for s in a.sends.iter() {
        if matches!(s.status, SendStatus::Failed | SendStatus::NeverStarted) {
            if let Some(rs) = a.recv_by_id.get(&s.id) {
                out.push(v(
                    format!("ledger/failed-send-delivered@{}", s.kind),
                    format!("{} of id {} reported failure ({:?}) but a {} returned the value", s.kind, s.id, s.err, a.recvs[rs[0]].kind),
                ));
            }
        }
    }
    if !a.completed {
        return out;
    }
    let class = a.d.case.class;
    if class.has_id() && class.tracks_drop() {
        // an accepted value is received exactly once, or destroyed once by the channel
        for s in a.sends.iter() {
            if s.status != SendStatus::Ok {
                continue;
            }
            if a.recv_by_id.contains_key(&s.id) {
                continue;
            }
            let e = a.d.entries.get(s.id as usize);
            let drops = e.map(|e| e.drops.as_slice()).unwrap_or(&[]);
            if drops.is_empty() {
                out.push(v(format!("ledger/lost@{}", s.kind), format!("id {} was accepted by {} and then neither received nor destroyed", s.id, s.kind)));
            } else {
                let (w, ri) = a.drop_where(&drops[0]);
                if !matches!(w, DropWhere::Close | DropWhere::HandleDrop | DropWhere::RecvCancel) {
                    let opk = a.d.recs.get(ri).map(|r| r.op.kind()).unwrap_or("?");
                    out.push(v(
                        format!("ledger/lost@{}", s.kind),
                        format!("id {} was accepted by {} and silently destroyed inside `{}` ({:?}) without being received", s.id, s.kind, opk, w),
                    ));
                }
            }
        }
    } else if class.has_id() {
        // without drop glue destruction is invisible: use the disconnect witness instead.
        // If some receive observed "all senders gone and nothing left" (SendClosed), every value accepted
        // before that must have been received, except one per cancelled pending receive future.
        let witness = a
            .d
            .recs
            .iter()
            .filter(|r| r.res == Res::RecvErr(E::SendClosed) || r.res == Res::StreamEnd)
            .map(|r| r.inv)
            .max();
        let closes = a.d.recs.iter().any(|r| r.res == Res::CloseOk);
        if let (Some(w), false) = (witness, closes) {
            let missing: Vec<u32> = a
                .sends
                .iter()
                .filter(|s| s.status == SendStatus::Ok && s.ret < w && !a.recv_by_id.contains_key(&s.id))
                .map(|s| s.id)
                .collect();
            if missing.len() > a.cancelled_recvs.len() {
                let s = &a.sends[a.send_by_id[&missing[0]]];
                out.push(v(
                    format!("ledger/lost@{}", s.kind),
                    format!(
                        "ids {:?} were accepted, never received, yet a receiver saw the channel empty and disconnected ({} cancelled receives)",
                        missing,
                        a.cancelled_recvs.len()
                    ),
                ));
            }
        }
    } else {
        // zero-sized: by count
        let ok = a.sends.iter().filter(|s| s.status == SendStatus::Ok).count();
        let amb = a.sends.iter().filter(|s| s.status == SendStatus::Cancelled).count();
        let got = a.recvs.iter().filter(|r| r.ident == Ident::Zst).count();
        if got > ok + amb {
            out.push(v("ledger/invented@zst", format!("{} zero-sized values received but only {} (+{} cancelled) sends succeeded", got, ok, amb)));
        }
        let witness = a.d.recs.iter().filter(|r| r.res == Res::RecvErr(E::SendClosed)).map(|r| r.inv).max();
        let closes = a.d.recs.iter().any(|r| r.res == Res::CloseOk);
        if let (Some(w), false) = (witness, closes) {
            let ok_before = a.sends.iter().filter(|s| s.status == SendStatus::Ok && s.ret < w).count();
            if ok_before > got + a.cancelled_recvs.len() {
                out.push(v(
                    "ledger/lost@zst",
                    format!("{} zero-sized sends succeeded, {} received, channel seen empty and disconnected", ok_before, got),
                ));
            }
        }
    }
    out
}

/// O-ledger(drop): C05
pub fn o_drops(a: &Analysis) -> Vec<Violation> {
    let mut out = Vec::new();
    // Option contract
    for r in a.d.recs.iter() {
        let is_opt = matches!(r.op, Op::SendOptTimeout { .. } | Op::TrySendOpt { .. } | Op::TrySendOptRt { .. });
        if !is_opt {
            continue;
        }
        let ok = r.res == Res::SendOk;
        match (&r.opt, &r.res) {
            (_, Res::Skipped) | (_, Res::Incomplete) => {}
            (OptAfter::Taken, _) if !ok => out.push(v(
                format!("ledger/option@{}", r.op.kind()),
                format!("{} reported {:?} but took the value out of the Option", r.op.kind(), r.res),
            )),
            (OptAfter::Back(id), _) if ok => out.push(v(
                format!("ledger/option@{}", r.op.kind()),
                format!("{} reported success but left {:?} in the Option", r.op.kind(), id),
            )),
            (OptAfter::Back(id), _) => {
                if *id != Ident::Zst && Some(id.clone()) != r.op.send_id().map(Ident::Id) {
                    out.push(v(
                        format!("ledger/option@{}", r.op.kind()),
                        format!("{} handed back {:?} instead of the value it was given", r.op.kind(), id),
                    ));
                }
            }
            _ => {}
        }
    }
    if !a.completed || !a.d.case.class.tracks_drop() {
        return out;
    }
    if a.d.case.class.has_id() {
        for (id, e) in a.d.entries.iter().enumerate() {
            if e.created && e.drops.is_empty() {
                let kind = a.send_by_id.get(&(id as u32)).map(|i| a.sends[*i].kind).unwrap_or("harness");
                let st = a.send_by_id.get(&(id as u32)).map(|i| format!("{:?}/{:?}", a.sends[*i].status, a.sends[*i].err));
                out.push(v(format!("ledger/leak@{}", kind), format!("value id {} (send: {:?}) was never dropped", id, st)));
            }
        }
    } else if a.d.zst_created != a.d.zst_dropped {
        out.push(v(
            "ledger/leak@zst",
            format!("{} zero-sized droppable values created, {} dropped", a.d.zst_created, a.d.zst_dropped),
        ));
    }
    out
}

/// C04: payload integrity
pub fn o_integrity(a: &Analysis) -> Vec<Violation> {
    let mut out = Vec::new();
    for r in a.recvs.iter() {
        if let Ident::Bad(s) = &r.ident {
            out.push(v(
                format!("ledger/mismatch@{}", r.kind),
                format!("{} returned a value that is not bit-for-bit a sent value: {}", r.kind, s),
            ));
        }
    }
    for r in a.d.recs.iter() {
        if let Res::Drained { prefix_ok: false, .. } = r.res {
            out.push(v("ledger/mismatch@drain-prefix", "drain_into changed the vector's previous contents".to_string()));
        }
        if let OptAfter::Back(Ident::Bad(s)) = &r.opt {
            out.push(v(format!("ledger/mismatch@{}", r.op.kind()), format!("value handed back in the Option is corrupted: {}", s)));
        }
    }
    out
}

/// O-order: C02
pub fn o_order(a: &Analysis) -> Vec<Violation> {
    let mut out = Vec::new();
    let ok: Vec<&SendEv> = a.sends.iter().filter(|s| s.status == SendStatus::Ok).collect();
    for sa in ok.iter() {
        let Some(ra) = a.recv_by_id.get(&sa.id).and_then(|x| x.first()).map(|i| &a.recvs[*i]) else { continue };
        for sb in ok.iter() {
            if sa.id == sb.id || !(sa.accept() < sb.inv) {
                continue;
            }
            let Some(rb) = a.recv_by_id.get(&sb.id).and_then(|x| x.first()).map(|i| &a.recvs[*i]) else { continue };
            let bad = if ra.rec == rb.rec { rb.pos < ra.pos } else { rb.ret < ra.inv };
            if bad {
                let how = if sa.reg.is_some() { "was blocked/pending in the channel" } else { "had returned" };
                out.push(v(
                    format!("order/overtaken@{}+{}>{}+{}", sa.kind, sb.kind, ra.kind, rb.kind),
                    format!(
                        "id {} ({}) {} before id {} ({}) began, yet {} obtained id {} and completed before {} that obtained id {} began",
                        sa.id, sa.kind, how, sb.id, sb.kind, rb.kind, sb.id, ra.kind, sa.id
                    ),
                ));
                return out;
            }
        }
    }
    out
}

/// Waiting receivers are served oldest first ("other waiters keep their order", C15): receive r1 was
/// registered in the wait list before receive r2 was, r2 was handed its value by send s2, and r1 was still
/// listed when s2 popped r2 - shown by r1 being served by a send that only began after s2 had returned
/// (a listed waiter leaves the list only by being popped, by its own cancellation or by the tear-down;
/// r1 got a value, so it was popped, and by a later send). The wait list is FIFO, so s2 must have
/// popped r1.
pub fn o_waiter_order(a: &Analysis) -> Vec<Violation> {
    let mut out = Vec::new();
    let single = |k: &str| matches!(k, "recv" | "recv_timeout" | "async_recv" | "stream_next");
    let waiting: Vec<(&RecvEv, u64, &SendEv)> = a
        .recvs
        .iter()
        .filter(|r| single(r.kind))
        .filter_map(|r| {
            // the position a waiter holds is the one of its LAST registration (an implementation may move a future to the
            // tail when it is polled with a new waker; C15 speaks of the OTHER waiters' order)
            let reg = a.d.recs[r.rec].reg_last?;
            let id = match &r.ident {
                Ident::Id(i) => *i,
                _ => return None,
            };
            if a.recv_by_id.get(&id).map(|v| v.len()) != Some(1) {
                return None;
            }
            let s = &a.sends[*a.send_by_id.get(&id)?];
            Some((r, reg, s))
        })
        .collect();
    for (r1, reg1, s1) in waiting.iter() {
        for (r2, reg2, s2) in waiting.iter() {
            if r1.rec == r2.rec || !(reg1 < reg2) || s2.ret == 0 {
                continue;
            }
            // s2 delivered into r2 after r2 registered; r1 was served by a send that began after s2 returned
            if *reg2 < s2.ret && s1.inv > s2.ret {
                out.push(v(
                    format!("waiters/overtaken@{}+{}", r1.kind, r2.kind),
                    format!(
                        "{} of task {} was waiting in the channel (registered at {}) before {} of task {} (registered at {}); {} id {} was handed to the younger waiter and returned at {} while the older one was still waiting: it was only served by {} id {} that began at {}",
                        r1.kind, r1.task, reg1, r2.kind, r2.task, reg2, s2.kind, s2.id, s2.ret, s1.kind, s1.id, s1.inv
                    ),
                ));
                return out;
            }
        }
    }
    out
}

/// O-cap: C08
pub fn o_cap(a: &Analysis) -> Vec<Violation> {
    let mut out = Vec::new();
    let cap = a.d.case.cap;
    // observed lengths
    for r in a.d.recs.iter() {
        if let (Op::Observe { what: Obs::Len, .. }, Res::Obs(n)) = (&r.op, &r.res) {
            if let Cap::Bounded(c) = cap {
                if *n > c as u64 {
                    out.push(v("cap/len-exceeds", format!("len() = {} on a channel bounded to {}", n, c)));
                }
            }
        }
        if let (Op::Observe { what: Obs::Capacity, .. }, Res::Obs(n)) = (&r.op, &r.res) {
            let want = cap.n() as u64;
            if *n != want {
                out.push(v("cap/capacity", format!("capacity() = {} but the channel was created with {}", n, want)));
            }
        }
        if let (Op::Observe { what: Obs::IsBounded, .. }, Res::Obs(n)) = (&r.op, &r.res) {
            if (*n == 1) != matches!(cap, Cap::Bounded(_)) {
                out.push(v("cap/is-bounded", format!("is_bounded() = {} on {:?}", n, cap)));
            }
        }
        if let (Op::Observe { what: Obs::IsFull, .. }, Res::Obs(n)) = (&r.op, &r.res) {
            if cap == Cap::Unbounded && *n == 1 {
                out.push(v("cap/is-full", "is_full() on an unbounded channel".to_string()));
            }
            if cap == Cap::Bounded(0) && *n == 0 {
                out.push(v("cap/is-full", "is_full() false on a zero-capacity channel".to_string()));
            }
        }
    }
    match cap {
        Cap::Unbounded => {
            for s in a.sends.iter() {
                if s.reg.is_some() {
                    out.push(v(format!("cap/unbounded-blocked@{}", s.kind), format!("{} waited on an unbounded channel", s.kind)));
                }
                // the *_realtime variants may answer "not done" because the internal lock was busy:
                // that is not a capacity refusal
                // that is not a capacity refusal - but it needs another task's operation to overlap the call
                let lock_maybe_busy = s.kind.ends_with("realtime")
                    && a.d.recs.iter().any(|x| x.task != s.task && x.inv < s.ret && (x.ret > s.inv || x.ret == 0));
                if s.status == SendStatus::Failed && s.err.is_none() && !lock_maybe_busy {
                    out.push(v(format!("cap/unbounded-refused@{}", s.kind), format!("{} was refused on an unbounded channel", s.kind)));
                }
                if s.err == Some(E::Timeout) {
                    out.push(v(format!("cap/unbounded-blocked@{}", s.kind), format!("{} timed out on an unbounded channel", s.kind)));
                }
            }
        }
        Cap::Bounded(n) => {
            // at every send-success return stamp t:
            //   #(sends returned Ok <= t) - #(values obtained by receive ops invoked <= t) <= n
            let mut ok: Vec<&SendEv> = a.sends.iter().filter(|s| s.status == SendStatus::Ok).collect();
            ok.sort_by_key(|s| s.ret);
            // a plain try_send is refused only when the buffer is full: if even the largest number of values that can
            // have been in the buffer at any moment of the call is below the capacity, the refusal was wrong.
            // largest possible length during [inv, ret] = sends that began by ret and succeeded (at any time)
            //                                            - values obtained by receive operations completed by inv
            if n >= 1 {
                for s in a.sends.iter() {
                    let refused = s.status == SendStatus::Failed && s.err.is_none() && matches!(s.kind, "try_send" | "try_send_option");
                    if !refused || s.ret == 0 {
                        continue;
                    }
                    let may_be_in = a
                        .sends
                        .iter()
                        .filter(|o| o.id != s.id && o.inv <= s.ret && matches!(o.status, SendStatus::Ok | SendStatus::Cancelled | SendStatus::Incomplete))
                        .count() as i64;
                    let surely_out = a.recvs.iter().filter(|r| r.ret != 0 && r.ret <= s.inv).count() as i64;
                    if may_be_in - surely_out < n as i64 {
                        out.push(v(
                            format!("cap/refused-with-room@{}", s.kind),
                            format!(
                                "{} of id {} was refused although at most {} values can have been in the buffer of capacity {} during the call",
                                s.kind,
                                s.id,
                                (may_be_in - surely_out).max(0),
                                n
                            ),
                        ));
                        break;
                    }
                }
            }
            let mut taken: Vec<u64> = a.recvs.iter().map(|r| r.inv).collect();
            // a cancelled pending receive may have consumed one value (documented caveat)
            for c in a.cancelled_recvs.iter() {
                taken.push(a.d.recs[*c].inv.min(first_inv_of_cancelled(a, *c)));
            }
            taken.sort();
            for (k, s) in ok.iter().enumerate() {
                let sent = k as i64 + 1;
                let got = taken.partition_point(|x| *x <= s.ret) as i64;
                if sent - got > n as i64 {
                    out.push(v(
                        format!("cap/exceeded@{}", s.kind),
                        format!(
                            "when {} of id {} returned success, {} sends had succeeded but only {} values had been taken by receive operations begun so far (capacity {})",
                            s.kind, s.id, sent, got, n
                        ),
                    ));
                    break;
                }
            }
        }
    }
    out
}

fn first_inv_of_cancelled(a: &Analysis, ri: usize) -> u64 {
    // for FutDrop / StreamDrop the receive began when the future was first polled; be generous: use the
    // earliest stamp of the task's matching creation op
    let r = &a.d.recs[ri];
    match &r.op {
        Op::FutDrop { .. } | Op::StreamDrop => {
            a.d.recs.iter().filter(|x| x.task == r.task && x.inv <= r.inv && matches!(x.op, Op::FutRecv { .. } | Op::StreamOpen { .. })).map(|x| x.inv).min().unwrap_or(r.inv)
        }
        _ => r.inv,
    }
}

/// which oracle signatures a property reports
pub fn owned_prefixes(prop: &str) -> &'static [&'static str] {
    match prop {
        // a race on the payload slot means a receive may return bytes no send supplied
        // a value destroyed twice had two owners (e.g. the channel destroyed it AND a receive returned it): duplicated
        "C01" => &["ledger/dup-receive", "ledger/lost", "ledger/failed-send-delivered", "ledger/invented", "hb/race/KanalPtr", "ledger/double-drop"],
        "C02" => &["order/"],
        "C04" => &["ledger/mismatch", "ledger/invented", "hb/race/KanalPtr", "hb/race/owner-returnsxKanalPtr", "hb/race/publishxKanalPtr", "hb/race/re-publishxKanalPtr"],
        "C05" => &["ledger/double-drop", "ledger/leak", "ledger/option", "ledger/drop-of-garbage"],
        "C06" => &["hang/", "progress/", "wait/", "drain/missed"],
        "C07" => &["hb/race", "life/", "ledger/drop-of-garbage"],
        "C08" => &["cap/"],
        "C09" => &["ledger/", "order/", "hang/", "count/", "close/", "progress/", "wait/"],
        "C10" => &["close/", "hang/", "ledger/leak", "ledger/double-drop"],
        "C11" => &["disc/", "hang/", "ledger/lost", "ledger/double-drop", "ledger/leak", "ledger/failed-send-delivered"],
        "C12" => &["count/"],
        "C13" => &["panic/undocumented", "time/", "ledger/leak", "ledger/double-drop", "ledger/option", "ledger/failed-send-delivered", "life/", "hang/", "wait/"],
        "C14" => &["nonblock/", "ledger/failed-send-delivered", "ledger/lost", "ledger/option", "explain/none"],
        "C15" => &["ledger/", "life/", "order/", "hang/", "wait/", "waiters/"],
        "C16" => &["poll/", "stream/", "hang/", "ledger/dup-receive", "ledger/invented", "ledger/lost", "order/", "panic/undocumented", "wait/", "ledger/leak", "ledger/double-drop"],
        "C19" => &["drain/", "order/", "nonblock/", "ledger/failed-send-delivered", "ledger/dup-receive"],
        _ => &[],
    }
}

pub fn evaluate(prop: &str, d: &RunData) -> (Vec<Violation>, Vec<Violation>) {
    use crate::oracle2::*;
    let a = Analysis::new(d);
    let mut all = o_abort(&a);
    let done = a.completed;
    match prop {
        "C01" => all.extend(o_delivery(&a)),
        "C02" => all.extend(o_order(&a)),
        "C04" => {
            all.extend(o_integrity(&a));
            all.extend(o_delivery(&a));
        }
        "C05" => all.extend(o_drops(&a)),
        "C06" => {
            if done {
                all.extend(o_progress(&a));
                // a drain is a receive: the senders it leaves blocked although it could take them do not progress
                all.extend(o_drain(&a).into_iter().filter(|x| x.sig.starts_with("drain/missed")));
            }
        }
        "C07" => {}
        "C08" => all.extend(o_cap(&a)),
        "C09" => {
            all.extend(o_delivery(&a));
            all.extend(o_drops(&a));
            all.extend(o_order(&a));
            if done {
                all.extend(o_count(&a));
                all.extend(o_close(&a));
                all.extend(o_progress(&a));
            }
        }
        "C10" => {
            if done {
                all.extend(o_close(&a));
            }
            // the values of operations that a close released (or refused afterwards) are handed back or destroyed
            // once; only judged in runs in which a close succeeded
            if d.recs.iter().any(|r| r.res == Res::CloseOk) {
                all.extend(o_drops(&a).into_iter().filter(|x| x.sig.starts_with("ledger/leak") || x.sig.starts_with("ledger/double-drop")));
            }
        }
        "C11" => {
            if done {
                all.extend(o_disc(&a));
            }
            all.extend(o_delivery(&a));
            all.extend(o_drops(&a));
        }
        "C12" => {
            if done {
                all.extend(o_count(&a));
            }
        }
        "C13" => {
            all.extend(o_time(&a));
            all.extend(o_drops(&a));
            all.extend(o_delivery(&a));
        }
        "C14" => {
            all.extend(o_nonblock(&a));
            all.extend(o_delivery(&a));
            all.extend(o_drops(&a));
            if done {
                all.extend(crate::explain::o_explain(d).0);
            }
        }
        "C15" => {
            all.extend(o_delivery(&a));
            all.extend(o_drops(&a));
            all.extend(o_order(&a));
            all.extend(o_waiter_order(&a));
        }
        "C16" => {
            // a re-poll (spurious, changed waker, after completion) must not cost a value its single destruction
            all.extend(o_drops(&a).into_iter().filter(|x| x.sig.starts_with("ledger/leak") || x.sig.starts_with("ledger/double-drop")));
            all.extend(o_poll(&a));
            all.extend(o_delivery(&a));
            all.extend(o_order(&a));
        }
        "C19" => {
            all.extend(o_drain(&a));
            all.extend(o_order(&a));
            all.extend(o_nonblock(&a));
            all.extend(o_delivery(&a));
        }
        _ => {}
    }
    let owned = owned_prefixes(prop);
    // a hang belongs to a property only if it is about what the property speaks of:
    //  C13 a timed operation is among the stuck ones; C15/C16 a future or the stream is among them;
    //  C10 a close() had succeeded; C11 no close, and one side had lost all its handles
    let closed = d.recs.iter().any(|r| r.res == Res::CloseOk);
    let side_gone = {
        let alive = |side: Side| {
            1 + d.recs.iter().filter(|r| r.via.map(|v| v.0) == Some(side) && matches!(r.op, Op::Clone { .. }) && r.res == Res::Unit).count() as i64
                - d.recs.iter().filter(|r| r.via.map(|v| v.0) == Some(side) && matches!(r.op, Op::DropHandle { .. }) && r.res != Res::Skipped).count() as i64
        };
        alive(Side::S) <= 0 || alive(Side::R) <= 0
    };
    let hang_is_mine = |sig: &str| -> bool {
        let asyncish = sig.contains("async_") || sig.contains("stream_next") || sig.contains("fut_");
        match prop {
            "C13" => sig.contains("timeout"),
            "C15" | "C16" => asyncish,
            "C10" => closed,
            "C11" => !closed && side_gone,
            _ => true,
        }
    };
    let (mine, foreign): (Vec<Violation>, Vec<Violation>) =
        all.into_iter().partition(|x| owned.iter().any(|p| x.sig.starts_with(p)) && (!x.sig.starts_with("hang/") || hang_is_mine(&x.sig)));
    (mine, foreign)
}
