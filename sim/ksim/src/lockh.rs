//! C17 lock harness: 2-4 tasks contend on kanal's internal lock (exported under the guard as
//! `kanal::verif::Mutex`) through lock / try_lock / unlock, doing a non-atomic read-modify-write on a
//! monitored cell inside the critical section.

use crate::case::*;
use crate::interp::{InFlight, Log, OptAfter, Rec, Res};
use kanal_verif_rt as rt;
use std::cell::{Cell, UnsafeCell};
use std::rc::Rc;
use std::sync::Arc;

pub struct RaceCell(UnsafeCell<u64>);
unsafe impl Sync for RaceCell {}
unsafe impl Send for RaceCell {}

struct Shared {
    m: kanal::verif::Mutex<RaceCell>,
}

fn begin(log: &Log, tid: usize, idx: usize, op: &Op) -> usize {
    let mut l = log.borrow_mut();
    let r = l.recs.len();
    l.recs.push(Rec {
        task: tid as u8,
        idx: idx as u16,
        op: op.clone(),
        inv: rt::stamp(),
        ret: 0,
        vt0: rt::peek_ns(),
        vt1: 0,
        res: Res::Incomplete,
        opt: OptAfter::NotOption,
        reg: None,
        reg_last: None,
        polls: 0,
        probes: Vec::new(),
        repoll: None,
        via: None,
        steps: rt::steps() as u32,
        own: rt::exec::own_steps() as u32,
    });
    l.inflight[tid].rec = Some(r);
    let _ = rt::take_probe_log();
    r
}

fn end(log: &Log, tid: usize, r: usize, res: Res) {
    let pl = rt::take_probe_log();
    let mut l = log.borrow_mut();
    let rec = &mut l.recs[r];
    rec.ret = rt::stamp();
    rec.vt1 = rt::peek_ns();
    rec.res = res;
    rec.steps = (rt::steps() as u32).wrapping_sub(rec.steps);
    rec.own = (rt::exec::own_steps() as u32).wrapping_sub(rec.own);
    for (id, _) in pl {
        if !rec.probes.contains(&id) {
            rec.probes.push(id);
        }
    }
    l.inflight[tid].rec = None;
}

fn critical(sh: &Shared, cell: &RaceCell, inside: &Cell<i32>, total: &Cell<u64>, hold: u8) {
    let _ = sh;
    if inside.get() != 0 {
        rt::violation("cs/overlap", format!("task {} is inside the critical section together with another task", rt::current()));
    }
    inside.set(1);
    let a = cell.0.get() as usize;
    rt::mem_read(a, "lock-cell:read");
    let v = unsafe { *cell.0.get() };
    for _ in 0..hold {
        rt::switch(false);
    }
    if inside.get() != 1 {
        rt::violation("cs/overlap", format!("task {} found another task inside its critical section", rt::current()));
    }
    rt::mem_write(a, "lock-cell:write");
    unsafe { *cell.0.get() = v + 1 };
    total.set(total.get() + 1);
    inside.set(0);
}

pub fn run_lock_case(case: Rc<Case>, log: Log) {
    let n_tasks = case.tasks.len() + 1;
    log.borrow_mut().inflight = (0..n_tasks).map(|_| InFlight::default()).collect();
    let sh = Arc::new(Shared { m: kanal::verif::Mutex::new(RaceCell(UnsafeCell::new(0))) });
    let inside = Rc::new(Cell::new(0i32));
    let total = Rc::new(Cell::new(0u64));
    {
        // make the cell a monitored location owned by main (tasks are forked afterwards)
        let g = sh.m.lock();
        rt::publish(g.0.get() as usize, 8, 0, 0);
        drop(g);
    }
    let mut tids = Vec::new();
    for i in 0..case.tasks.len() {
        let (case2, log2, sh2, inside2, total2) = (case.clone(), log.clone(), sh.clone(), inside.clone(), total.clone());
        let tid = rt::spawn(&format!("t{}", i + 1), move || {
            let me = i + 1;
            for (k, op) in case2.tasks[i].ops.iter().enumerate() {
                let r = begin(&log2, me, k, op);
                let res = match op {
                    Op::MLock { hold } => {
                        let g = sh2.m.lock();
                        critical(&sh2, &g, &inside2, &total2, *hold);
                        drop(g);
                        Res::Obs(1)
                    }
                    Op::MTryLock { hold } => {
                        let before = rt::exec::own_steps();
                        let g = sh2.m.try_lock();
                        let took = rt::exec::own_steps() - before;
                        if took > 64 {
                            rt::violation("lock/try-waited", format!("try_lock took {} scheduling decisions of its own: it waited", took));
                        }
                        match g {
                            Some(g) => {
                                critical(&sh2, &g, &inside2, &total2, *hold);
                                drop(g);
                                Res::Obs(1)
                            }
                            None => Res::Obs(0),
                        }
                    }
                    Op::Yield => {
                        rt::yield_now();
                        Res::Unit
                    }
                    _ => Res::Skipped,
                };
                end(&log2, me, r, res);
            }
        });
        tids.push(tid);
    }
    for t in tids {
        rt::join(t);
    }
    let r = begin(&log, 0, 0, &Op::MLock { hold: 0 });
    let g = sh.m.lock();
    rt::mem_read(g.0.get() as usize, "lock-cell:final-read");
    let v = unsafe { *g.0.get() };
    drop(g);
    if v != total.get() {
        rt::violation("lock/lost-update", format!("{} increments were made inside the critical section, the cell holds {}", total.get(), v));
    }
    end(&log, 0, r, Res::Obs(v));
}

use crate::util::Rng;
pub fn gen_lock_case(rng: &mut Rng) -> Case {
    let nt = rng.range(2, 4) as usize;
    let mut tasks = Vec::new();
    for _ in 0..nt {
        let n = rng.range(1, 4);
        let mut ops = Vec::new();
        for _ in 0..n {
            let hold = *rng.pick(&[0u8, 0, 1, 2, 5]);
            ops.push(match rng.below(10) {
                0..=4 => Op::MLock { hold },
                5..=8 => Op::MTryLock { hold },
                _ => Op::Yield,
            });
        }
        tasks.push(TaskSpec { handles: vec![], ops });
    }
    let mut p = crate::gen::Profile::default();
    p.faults = true;
    p.monitors = true;
    let mut knobs = crate::gen::gen_knobs(rng, &p);
    knobs.p_spurious_park = 0;
    Case { cap: Cap::Bounded(0), ctor: Flavour::Sync, class: crate::payload::Class::U32, mask: 0, knobs, tasks, main_keeps_roots: false, lock_harness: true, epilogue: vec![], balanced: false }
}
