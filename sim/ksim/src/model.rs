//! O-model: the reference channel. No concurrency, no pointers: a queue, a FIFO
//! of waiting senders, a FIFO of waiting receivers (at most one of the two is
//! non-empty), a capacity and two handle counts. Written from the documentation
//! and the property statements (DESIGN.md appendix A).

use std::collections::VecDeque;

/// identifies a waiting operation: (task, op sequence number)
pub type Wid = u32;

#[derive(Clone, Debug, PartialEq, Eq, Hash)]
pub struct M {
    pub cap: usize,
    pub queue: VecDeque<u32>,
    pub sw: VecDeque<(Wid, u32)>,
    pub rw: VecDeque<Wid>,
    pub sc: u32,
    pub rc: u32,
}

#[derive(Clone, Copy, Debug, PartialEq, Eq, Hash)]
pub enum SendErr {
    Closed,
    ReceiveClosed,
}
#[derive(Clone, Copy, Debug, PartialEq, Eq, Hash)]
pub enum RecvErr {
    Closed,
    SendClosed,
}

/// what happened to another, waiting operation as a side effect of a step
#[derive(Clone, Copy, Debug, PartialEq, Eq, Hash)]
pub enum Done {
    /// a waiting sender's value was taken: it completes with success
    SendOk(Wid),
    /// a waiting receiver got value v
    RecvOk(Wid, u32),
    /// a waiter was released with an error (close / disconnect)
    Released(Wid),
}

#[derive(Clone, Debug, PartialEq, Eq)]
pub enum SendStep {
    Ok(Vec<Done>),
    Err(SendErr),
    /// buffer full (or rendezvous) and no receiver waits
    WouldWait,
}

#[derive(Clone, Debug, PartialEq, Eq)]
pub enum RecvStep {
    Ok(u32, Vec<Done>),
    Err(RecvErr),
    WouldWait,
}

impl M {
    pub fn new(cap: usize) -> M {
        M { cap, queue: VecDeque::new(), sw: VecDeque::new(), rw: VecDeque::new(), sc: 1, rc: 1 }
    }
    pub fn closed(&self) -> bool {
        self.sc == 0 && self.rc == 0
    }

    /// any send-like operation offering value v
    pub fn send(&mut self, v: u32) -> SendStep {
        if self.rc == 0 {
            return SendStep::Err(if self.sc == 0 { SendErr::Closed } else { SendErr::ReceiveClosed });
        }
        if let Some(w) = self.rw.pop_front() {
            return SendStep::Ok(vec![Done::RecvOk(w, v)]);
        }
        if self.queue.len() < self.cap {
            self.queue.push_back(v);
            return SendStep::Ok(vec![]);
        }
        SendStep::WouldWait
    }
    pub fn register_send(&mut self, w: Wid, v: u32) {
        self.sw.push_back((w, v));
    }

    /// any receive-like operation
    pub fn recv(&mut self) -> RecvStep {
        if self.rc == 0 {
            return RecvStep::Err(RecvErr::Closed);
        }
        if let Some(v) = self.queue.pop_front() {
            let mut done = vec![];
            if let Some((w, x)) = self.sw.pop_front() {
                self.queue.push_back(x);
                done.push(Done::SendOk(w));
            }
            return RecvStep::Ok(v, done);
        }
        if let Some((w, x)) = self.sw.pop_front() {
            return RecvStep::Ok(x, vec![Done::SendOk(w)]);
        }
        if self.sc == 0 {
            return RecvStep::Err(RecvErr::SendClosed);
        }
        RecvStep::WouldWait
    }
    /// what a receive would do, without doing it
    pub fn recv_would_wait(&self) -> bool {
        self.rc != 0 && self.queue.is_empty() && self.sw.is_empty() && self.sc != 0
    }
    pub fn send_would_wait(&self) -> bool {
        self.rc != 0 && self.rw.is_empty() && self.queue.len() >= self.cap
    }
    pub fn register_recv(&mut self, w: Wid) {
        self.rw.push_back(w);
    }

    pub fn drain(&mut self) -> Result<(Vec<u32>, Vec<Done>), RecvErr> {
        if self.rc == 0 {
            return Err(RecvErr::Closed);
        }
        let mut out: Vec<u32> = self.queue.drain(..).collect();
        let mut done = vec![];
        while let Some((w, x)) = self.sw.pop_front() {
            out.push(x);
            done.push(Done::SendOk(w));
        }
        Ok((out, done))
    }

    fn release_all(&mut self) -> Vec<Done> {
        let mut d: Vec<Done> = self.sw.drain(..).map(|(w, _)| Done::Released(w)).collect();
        d.extend(self.rw.drain(..).map(Done::Released));
        d
    }

    /// Ok(released waiters, destroyed buffered values) or Err if already closed
    pub fn close(&mut self) -> Result<(Vec<Done>, Vec<u32>), ()> {
        if self.closed() {
            return Err(());
        }
        self.sc = 0;
        self.rc = 0;
        let d = self.release_all();
        let destroyed: Vec<u32> = self.queue.drain(..).collect();
        Ok((d, destroyed))
    }

    pub fn drop_sender(&mut self) -> Vec<Done> {
        if self.sc > 0 {
            self.sc -= 1;
            if self.sc == 0 && self.rc != 0 {
                return self.release_all();
            }
        }
        vec![]
    }
    pub fn drop_receiver(&mut self) -> Vec<Done> {
        if self.rc > 0 {
            self.rc -= 1;
            if self.rc == 0 && self.sc != 0 {
                return self.release_all();
            }
        }
        vec![]
    }
    pub fn clone_sender(&mut self) {
        if self.sc > 0 {
            self.sc += 1;
        }
    }
    pub fn clone_receiver(&mut self) {
        if self.rc > 0 {
            self.rc += 1;
        }
    }

    /// unregister a waiting sender; false if it is no longer waiting
    pub fn cancel_send(&mut self, w: Wid) -> bool {
        match self.sw.iter().position(|(x, _)| *x == w) {
            Some(p) => {
                self.sw.remove(p);
                true
            }
            None => false,
        }
    }
    pub fn cancel_recv(&mut self, w: Wid) -> bool {
        match self.rw.iter().position(|x| *x == w) {
            Some(p) => {
                self.rw.remove(p);
                true
            }
            None => false,
        }
    }

    // observers
    pub fn len(&self) -> u64 {
        self.queue.len() as u64
    }
    pub fn is_empty(&self) -> bool {
        self.queue.is_empty()
    }
    pub fn is_full(&self) -> bool {
        self.queue.len() == self.cap
    }
    pub fn capacity(&self) -> u64 {
        self.cap as u64
    }
    pub fn is_bounded(&self) -> bool {
        self.cap != usize::MAX
    }
    pub fn is_terminated(&self) -> bool {
        self.sc == 0 && self.queue.is_empty()
    }
}
