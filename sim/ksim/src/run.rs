//! Execute one case inside one simulated execution and collect everything the
//! oracles need.

use crate::case::Case;
use crate::interp::{run_case, Log, RunLog};
use crate::oracle::{RunData, WakerInfo};
use crate::payload;
use crate::with_class;
use kanal_verif_rt as rt;
use rt::exec::Source;
use std::cell::RefCell;
use std::rc::Rc;
use std::sync::atomic::Ordering;

fn go<P: payload::Payload>(case: Rc<Case>, log: Log, src: Source) -> rt::exec::Outcome {
    let est = (case.n_ops() as u32 + 4) * 25;
    let cfg = case.knobs.to_cfg(est);
    rt::exec::run(cfg, src, move || run_case::<P>(case, log))
}

pub fn execute(case: &Case, src: Source) -> RunData {
    let log: Log = Rc::new(RefCell::new(RunLog::default()));
    let rc = Rc::new(case.clone());
    let outcome = with_class!(case.class, go(rc, log.clone(), src));
    let (entries, zc, zd, zdrops) = payload::snapshot();
    // after an aborted run the task stacks are abandoned and still hold clones of `log`
    let l = log.borrow();
    let mut stuck_wakers = Vec::new();
    for (t, inf) in l.inflight.iter().enumerate() {
        if let Some(r) = inf.rec {
            if !inf.wakers.is_empty() {
                let n = inf.wakers.len();
                let latest = inf.wakers[n - 1].wakes.load(Ordering::Relaxed);
                let older: u32 = inf.wakers[..n - 1].iter().map(|w| w.wakes.load(Ordering::Relaxed)).sum();
                stuck_wakers.push(WakerInfo { task: t, rec: r, latest_wakes: latest, older_wakes: older, n_wakers: n });
            }
        }
    }
    RunData {
        case: case.clone(),
        recs: l.recs.clone(),
        outcome,
        entries,
        zst_created: zc,
        zst_dropped: zd,
        zst_drops: zdrops,
        stuck_wakers,
        counters: l.counters,
    }
}
