//! C18: single-threaded lock-step comparison with the reference model, and the
//! sequence generator that uses the model to avoid calls that would block for ever.

use crate::case::*;
use crate::interp::{OptAfter, Rec, Res, E};
use crate::model::*;
use crate::oracle::{RunData, Violation};
use crate::payload::{Class, Ident};
use crate::util::Rng;

#[derive(Clone, Debug, PartialEq)]
enum FutSt {
    Zero,
    Waiting(Wid),
    /// completed by a peer step, not yet observed by a poll
    Ready(FutOut),
    Done,
}
#[derive(Clone, Debug, PartialEq)]
enum FutOut {
    SendOk,
    Recv(u32),
    Released,
}
#[derive(Clone, Debug)]
struct FutM {
    send: Option<u32>,
    st: FutSt,
    alive: bool,
}

#[derive(Clone, Debug)]
pub struct SeqModel {
    pub m: M,
    futs: Vec<FutM>,
    /// the stream's inner future, and whether the stream has ended
    stream: Option<(FutSt, bool)>,
    next_wid: Wid,
    /// ids destroyed by the channel or by a cancelled receive (for information)
    pub destroyed: Vec<u32>,
}

#[derive(Clone, Debug, PartialEq)]
pub enum Expect {
    Exactly(Res, OptAfter),
    OneOf(Vec<Res>),
    /// must panic, message contains the text
    Panics(&'static str),
    /// not comparable (op skipped by the interpreter)
    Any,
    /// the model says this call would block for ever in a single thread
    Blocks,
}

fn ex(r: Res) -> Expect {
    Expect::Exactly(r, OptAfter::NotOption)
}
fn se(e: SendErr) -> E {
    match e {
        SendErr::Closed => E::Closed,
        SendErr::ReceiveClosed => E::ReceiveClosed,
    }
}
fn re(e: RecvErr) -> E {
    match e {
        RecvErr::Closed => E::Closed,
        RecvErr::SendClosed => E::SendClosed,
    }
}

impl SeqModel {
    pub fn new(cap: Cap) -> SeqModel {
        SeqModel { m: M::new(cap.n()), futs: Vec::new(), stream: None, next_wid: 1, destroyed: Vec::new() }
    }
    fn wid(&mut self) -> Wid {
        self.next_wid += 1;
        self.next_wid
    }
    fn apply_done(&mut self, done: Vec<Done>) {
        for d in done {
            let (w, out) = match d {
                Done::SendOk(w) => (w, FutOut::SendOk),
                Done::RecvOk(w, v) => (w, FutOut::Recv(v)),
                Done::Released(w) => (w, FutOut::Released),
            };
            for f in self.futs.iter_mut() {
                if f.st == FutSt::Waiting(w) {
                    f.st = FutSt::Ready(out.clone());
                }
            }
            if let Some((st, _)) = &mut self.stream {
                if *st == FutSt::Waiting(w) {
                    *st = FutSt::Ready(out.clone());
                }
            }
        }
    }

    /// poll of a send future in state `st` offering id
    fn poll_send(&mut self, st: &mut FutSt, id: u32) -> Res {
        match st.clone() {
            FutSt::Zero => match self.m.send(id) {
                SendStep::Ok(d) => {
                    *st = FutSt::Done;
                    self.apply_done(d);
                    Res::SendOk
                }
                SendStep::Err(e) => {
                    *st = FutSt::Done;
                    Res::SendErr(se(e))
                }
                SendStep::WouldWait => {
                    let w = self.wid();
                    self.m.register_send(w, id);
                    *st = FutSt::Waiting(w);
                    Res::Pending
                }
            },
            FutSt::Waiting(_) => Res::Pending,
            FutSt::Ready(FutOut::SendOk) => {
                *st = FutSt::Done;
                Res::SendOk
            }
            FutSt::Ready(_) => {
                *st = FutSt::Done;
                Res::SendErr(E::Closed)
            }
            FutSt::Done => Res::Panicked("polled after result is already returned".into()),
        }
    }
    fn poll_recv(&mut self, st: &mut FutSt) -> Res {
        match st.clone() {
            FutSt::Zero => match self.m.recv() {
                RecvStep::Ok(v, d) => {
                    *st = FutSt::Done;
                    self.apply_done(d);
                    Res::RecvOk(Ident::Id(v))
                }
                RecvStep::Err(e) => {
                    *st = FutSt::Done;
                    Res::RecvErr(re(e))
                }
                RecvStep::WouldWait => {
                    let w = self.wid();
                    self.m.register_recv(w);
                    *st = FutSt::Waiting(w);
                    Res::Pending
                }
            },
            FutSt::Waiting(_) => Res::Pending,
            FutSt::Ready(FutOut::Recv(v)) => {
                *st = FutSt::Done;
                Res::RecvOk(Ident::Id(v))
            }
            FutSt::Ready(_) => {
                *st = FutSt::Done;
                Res::RecvErr(E::Closed)
            }
            FutSt::Done => Res::Panicked("polled after result is already returned".into()),
        }
    }
    fn drop_fut(&mut self, st: &FutSt, is_send: bool) {
        match st {
            FutSt::Waiting(w) => {
                if is_send {
                    self.m.cancel_send(*w);
                } else {
                    self.m.cancel_recv(*w);
                }
            }
            FutSt::Ready(FutOut::Recv(v)) => self.destroyed.push(*v),
            _ => {}
        }
    }

    pub fn would_block(&self, op: &Op) -> bool {
        match op {
            Op::Send { .. } => self.m.send_would_wait(),
            Op::Recv { .. } => self.m.recv_would_wait(),
            Op::SendTimeout { us: u32::MAX, .. } | Op::SendOptTimeout { us: u32::MAX, .. } => self.m.send_would_wait(),
            Op::RecvTimeout { us: u32::MAX, .. } => self.m.recv_would_wait(),
            Op::Iter { n, .. } => {
                let avail = self.m.queue.len() + self.m.sw.len();
                self.m.rc != 0 && self.m.sc != 0 && avail < *n as usize
            }
            Op::RecvAll { .. } => self.m.rc != 0 && self.m.sc != 0,
            _ => false,
        }
    }

    /// Apply one recorded call to the model and say what it must have returned.
    /// `via` is the side of the handle the call went through.
    pub fn step(&mut self, op: &Op, via: Option<Side>, skipped: bool) -> Expect {
        if skipped {
            return Expect::Any;
        }
        let timeout_send = |sm: &mut SeqModel, id: u32, option: bool| -> Expect {
            match sm.m.send(id) {
                SendStep::Ok(d) => {
                    sm.apply_done(d);
                    Expect::Exactly(Res::SendOk, if option { OptAfter::Taken } else { OptAfter::NotOption })
                }
                SendStep::Err(e) => {
                    Expect::Exactly(Res::SendErr(se(e)), if option { OptAfter::Back(Ident::Id(id)) } else { OptAfter::NotOption })
                }
                SendStep::WouldWait => {
                    Expect::Exactly(Res::SendErr(E::Timeout), if option { OptAfter::Back(Ident::Id(id)) } else { OptAfter::NotOption })
                }
            }
        };
        let try_send = |sm: &mut SeqModel, id: u32, option: bool| -> Expect {
            match sm.m.send(id) {
                SendStep::Ok(d) => {
                    sm.apply_done(d);
                    Expect::Exactly(Res::SendOk, if option { OptAfter::Taken } else { OptAfter::NotOption })
                }
                SendStep::Err(e) => {
                    Expect::Exactly(Res::SendErr(se(e)), if option { OptAfter::Back(Ident::Id(id)) } else { OptAfter::NotOption })
                }
                SendStep::WouldWait => {
                    Expect::Exactly(Res::SendRefused, if option { OptAfter::Back(Ident::Id(id)) } else { OptAfter::NotOption })
                }
            }
        };
        match op {
            Op::Send { id, .. } => match self.m.send(*id) {
                SendStep::Ok(d) => {
                    self.apply_done(d);
                    ex(Res::SendOk)
                }
                SendStep::Err(e) => ex(Res::SendErr(se(e))),
                SendStep::WouldWait => Expect::Blocks,
            },
            Op::SendTimeout { id, .. } => timeout_send(self, *id, false),
            Op::SendOptTimeout { id, .. } => timeout_send(self, *id, true),
            Op::TrySend { id, .. } | Op::TrySendRt { id, .. } => try_send(self, *id, false),
            Op::TrySendOpt { id, .. } | Op::TrySendOptRt { id, .. } => try_send(self, *id, true),
            Op::SendNone { .. } => Expect::Panics("send data option is None"),
            Op::ASend { id, plan, .. } => {
                if plan.never_poll {
                    return ex(Res::Cancelled);
                }
                let mut st = FutSt::Zero;
                let r = self.poll_send(&mut st, *id);
                if r == Res::Pending {
                    self.drop_fut(&st, true);
                    ex(Res::Cancelled)
                } else {
                    ex(r)
                }
            }
            Op::Recv { .. } => match self.m.recv() {
                RecvStep::Ok(v, d) => {
                    self.apply_done(d);
                    ex(Res::RecvOk(Ident::Id(v)))
                }
                RecvStep::Err(e) => ex(Res::RecvErr(re(e))),
                RecvStep::WouldWait => Expect::Blocks,
            },
            Op::RecvTimeout { us, .. } => {
                if self.m.rc != 0 && self.m.queue.is_empty() && self.m.sw.is_empty() && self.m.sc == 0 {
                    // nothing available and no sender left: the deadline check comes first when it has
                    // already passed (zero duration), the disconnect otherwise
                    return if *us == 0 {
                        Expect::OneOf(vec![Res::RecvErr(E::Timeout), Res::RecvErr(E::SendClosed)])
                    } else {
                        ex(Res::RecvErr(E::SendClosed))
                    };
                }
                match self.m.recv() {
                    RecvStep::Ok(v, d) => {
                        self.apply_done(d);
                        ex(Res::RecvOk(Ident::Id(v)))
                    }
                    RecvStep::Err(e) => ex(Res::RecvErr(re(e))),
                    RecvStep::WouldWait => ex(Res::RecvErr(E::Timeout)),
                }
            }
            Op::TryRecv { .. } | Op::TryRecvRt { .. } => match self.m.recv() {
                RecvStep::Ok(v, d) => {
                    self.apply_done(d);
                    ex(Res::RecvOk(Ident::Id(v)))
                }
                RecvStep::Err(e) => ex(Res::RecvErr(re(e))),
                RecvStep::WouldWait => ex(Res::RecvNone),
            },
            Op::Drain { .. } => match self.m.drain() {
                Ok((vals, d)) => {
                    self.apply_done(d);
                    ex(Res::Drained { ret: vals.len(), appended: vals.into_iter().map(Ident::Id).collect(), prefix_ok: true })
                }
                Err(e) => ex(Res::RecvErr(re(e))),
            },
            Op::Iter { n, .. } => {
                let mut vals = Vec::new();
                for _ in 0..*n {
                    match self.m.recv() {
                        RecvStep::Ok(v, d) => {
                            self.apply_done(d);
                            vals.push(Ident::Id(v));
                        }
                        RecvStep::Err(_) => break,
                        RecvStep::WouldWait => return Expect::Blocks,
                    }
                }
                ex(Res::IterVals(vals))
            }
            Op::ARecv { plan, .. } => {
                if plan.never_poll {
                    return ex(Res::Cancelled);
                }
                let mut st = FutSt::Zero;
                let r = self.poll_recv(&mut st);
                if r == Res::Pending {
                    self.drop_fut(&st, false);
                    ex(Res::Cancelled)
                } else {
                    ex(r)
                }
            }
            Op::RecvAll { .. } => Expect::Any,
            Op::StreamOpen { .. } => {
                self.stream = Some((FutSt::Zero, false));
                ex(Res::Unit)
            }
            Op::StreamNext { .. } => {
                let Some((mut st, ended)) = self.stream.take() else { return Expect::Any };
                if ended {
                    self.stream = Some((st, true));
                    return ex(Res::StreamEnd);
                }
                if st == FutSt::Done {
                    st = FutSt::Zero;
                }
                let r = self.poll_recv(&mut st);
                let (out, ended) = match r {
                    Res::Pending => (Res::Cancelled, false),
                    Res::RecvOk(v) => (Res::RecvOk(v), false),
                    Res::RecvErr(_) => (Res::StreamEnd, true),
                    x => (x, false),
                };
                self.stream = Some((st, ended));
                ex(out)
            }
            Op::StreamDrop => {
                if let Some((st, _)) = self.stream.take() {
                    self.drop_fut(&st, false);
                }
                ex(Res::Unit)
            }
            Op::FutSend { id, .. } => {
                self.futs.push(FutM { send: Some(*id), st: FutSt::Zero, alive: true });
                ex(Res::Unit)
            }
            Op::FutRecv { .. } => {
                self.futs.push(FutM { send: None, st: FutSt::Zero, alive: true });
                ex(Res::Unit)
            }
            Op::FutPoll { f, .. } => {
                let Some(fm) = self.futs.get(*f as usize).cloned() else { return Expect::Any };
                if !fm.alive {
                    return Expect::Any;
                }
                let mut st = fm.st.clone();
                // a waiter released by a close or a disconnect may report either error variant (appendix A)
                let released = matches!(fm.st, FutSt::Ready(FutOut::Released));
                let r = match fm.send {
                    Some(id) => self.poll_send(&mut st, id),
                    None => self.poll_recv(&mut st),
                };
                self.futs[*f as usize].st = st;
                if let Res::Panicked(_) = r {
                    Expect::Panics("polled after result is already returned")
                } else if released {
                    if fm.send.is_some() {
                        Expect::OneOf(vec![Res::SendErr(E::Closed), Res::SendErr(E::ReceiveClosed)])
                    } else {
                        Expect::OneOf(vec![Res::RecvErr(E::Closed), Res::RecvErr(E::SendClosed)])
                    }
                } else {
                    ex(r)
                }
            }
            Op::FutDrop { f } => {
                let Some(fm) = self.futs.get(*f as usize).cloned() else { return Expect::Any };
                if !fm.alive {
                    return Expect::Any;
                }
                self.drop_fut(&fm.st, fm.send.is_some());
                self.futs[*f as usize].alive = false;
                ex(Res::Unit)
            }
            Op::Clone { .. } => {
                match via {
                    Some(Side::S) => self.m.clone_sender(),
                    Some(Side::R) => self.m.clone_receiver(),
                    None => {}
                }
                ex(Res::Unit)
            }
            Op::Convert { .. } => ex(Res::Unit),
            Op::DropHandle { .. } => {
                let d = match via {
                    Some(Side::S) => self.m.drop_sender(),
                    Some(Side::R) => self.m.drop_receiver(),
                    None => vec![],
                };
                self.apply_done(d);
                ex(Res::Unit)
            }
            Op::Close { .. } => match self.m.close() {
                Ok((d, destroyed)) => {
                    self.apply_done(d);
                    self.destroyed.extend(destroyed);
                    ex(Res::CloseOk)
                }
                Err(()) => ex(Res::CloseErr),
            },
            Op::Observe { what, .. } => {
                let v = match what {
                    Obs::Len => self.m.len(),
                    Obs::IsEmpty => self.m.is_empty() as u64,
                    Obs::IsFull => self.m.is_full() as u64,
                    Obs::Capacity => self.m.capacity(),
                    Obs::IsBounded => self.m.is_bounded() as u64,
                    Obs::SenderCount => self.m.sc as u64,
                    Obs::ReceiverCount => self.m.rc as u64,
                    Obs::IsClosed => self.m.closed() as u64,
                    Obs::IsDisconnected => match via {
                        Some(Side::S) => (self.m.rc == 0) as u64,
                        _ => (self.m.sc == 0) as u64,
                    },
                    Obs::IsTerminated => self.m.is_terminated() as u64,
                };
                // receivers gone, channel not closed: the buffer may have been destroyed already or be kept until the
                // last handle goes (no property fixes the instant; nobody can receive from it any more)
                let alt = if self.m.rc == 0 && self.m.sc > 0 {
                    match what {
                        Obs::Len => Some(0),
                        Obs::IsEmpty => Some(1),
                        Obs::IsFull => Some((self.m.cap == 0) as u64),
                        _ => None,
                    }
                } else {
                    None
                };
                match alt {
                    Some(x) if x != v => Expect::OneOf(vec![Res::Obs(v), Res::Obs(x)]),
                    _ => ex(Res::Obs(v)),
                }
            }
            Op::Yield | Op::AdvanceClock { .. } | Op::FutJoin { .. } => ex(Res::Unit),
            Op::MLock { .. } | Op::MTryLock { .. } => Expect::Any,
        }
    }
}

fn ident_eq(class: Class, a: &Ident, b: &Ident) -> bool {
    if !class.has_id() {
        return matches!(a, Ident::Zst) && !matches!(b, Ident::Bad(_));
    }
    a == b
}

fn res_eq(class: Class, got: &Res, want: &Res) -> bool {
    match (got, want) {
        (Res::RecvOk(a), Res::RecvOk(b)) => ident_eq(class, a, b),
        (Res::Drained { ret: r1, appended: a1, prefix_ok: p1 }, Res::Drained { ret: r2, appended: a2, prefix_ok: p2 }) => {
            r1 == r2 && p1 == p2 && a1.len() == a2.len() && a1.iter().zip(a2.iter()).all(|(a, b)| ident_eq(class, a, b))
        }
        (Res::IterVals(a1), Res::IterVals(a2)) => a1.len() == a2.len() && a1.iter().zip(a2.iter()).all(|(a, b)| ident_eq(class, a, b)),
        (a, b) => a == b,
    }
}
fn opt_eq(class: Class, got: &OptAfter, want: &OptAfter) -> bool {
    match (got, want) {
        (OptAfter::Back(a), OptAfter::Back(b)) => ident_eq(class, a, b),
        (a, b) => a == b,
    }
}

/// lock-step comparison of a single-threaded history with the model
pub fn o_seq(d: &RunData) -> Vec<Violation> {
    let mut out = Vec::new();
    let mut sm = SeqModel::new(d.case.cap);
    let class = d.case.class;
    for r in d.recs.iter() {
        if r.res == Res::Incomplete {
            break;
        }
        let via = r.via.map(|v| v.0);
        let want = sm.step(&r.op, via, r.res == Res::Skipped);
        let bad = match &want {
            Expect::Any => None,
            Expect::Blocks => Some(format!("the reference model says this call cannot complete, kanal returned {:?}", r.res)),
            Expect::Exactly(res, opt) => {
                if res_eq(class, &r.res, res) && opt_eq(class, &r.opt, opt) {
                    None
                } else {
                    Some(format!("kanal returned {:?} / {:?}, the reference model {:?} / {:?}", r.res, r.opt, res, opt))
                }
            }
            Expect::OneOf(v) => {
                if v.iter().any(|x| res_eq(class, &r.res, x)) {
                    None
                } else {
                    Some(format!("kanal returned {:?}, the reference model allows {:?}", r.res, v))
                }
            }
            Expect::Panics(txt) => match &r.res {
                // the properties name the situations in which a call panics, not the wording of the message
                Res::Panicked(_) => None,
                x => Some(format!("kanal returned {:?}, the documented panic `{}` was expected", x, txt)),
            },
        };
        if let Some(b) = bad {
            out.push(Violation {
                sig: format!("model/diff/{}", r.op.kind()),
                detail: format!("call #{} of task {}: {:?}: {} (model state before the next call: {:?})", r.idx, r.task, r.op, b, sm.m),
            });
            break;
        }
        if let Some(rp) = &r.repoll {
            let ok = match &r.op {
                Op::StreamNext { .. } => rp == "returned Ready(None)",
                _ => rp.starts_with("panicked"),
            };
            if !ok {
                out.push(Violation {
                    sig: format!("model/diff/repoll-{}", r.op.kind()),
                    detail: format!("polling {:?} again after it had completed: {}", r.op.kind(), rp),
                });
                break;
            }
        }
    }
    out
}

// ------------------------------------------------------------------ G-seq

#[derive(Clone, Copy)]
struct Slot {
    side: Side,
    live: bool,
    borrows: u32,
    sync: bool,
}

pub fn gen_seq(rng: &mut Rng, max_len: usize) -> Case {
    let cap = *rng.pick(&[Cap::Bounded(0), Cap::Bounded(1), Cap::Bounded(2), Cap::Unbounded]);
    let classes: Vec<Class> = crate::payload::ALL_CLASSES.iter().copied().filter(|c| c.has_id()).collect();
    let class = if rng.chance(1, 8) { *rng.pick(crate::payload::ALL_CLASSES) } else { *rng.pick(&classes) };
    let ctor = if rng.chance(1, 2) { Flavour::Sync } else { Flavour::Async };
    let fl = |rng: &mut Rng| if rng.chance(1, 2) { Flavour::Async } else { Flavour::Sync };
    let dv = |rng: &mut Rng| if rng.chance(1, 2) { Derive::CloneAs } else { Derive::CloneThenConvert };
    let handles = vec![
        HandleSpec { side: Side::S, flavour: fl(rng), derive: dv(rng) },
        HandleSpec { side: Side::R, flavour: fl(rng), derive: dv(rng) },
    ];
    let mut slots: Vec<Slot> = handles.iter().map(|h| Slot { side: h.side, live: true, borrows: 0, sync: h.flavour == Flavour::Sync }).collect();
    let mut sm = SeqModel::new(cap);
    // per-run alphabet subset: weights of op groups
    let mut w = [10u32; 12];
    for x in w.iter_mut() {
        *x = *rng.pick(&[0u32, 3, 10, 10, 20]);
    }
    let len = rng.range(1, max_len as u64) as usize;
    let mut ops: Vec<Op> = Vec::new();
    let mut next_id = 0u32;
    let mut futs: Vec<(bool, u8, bool)> = Vec::new(); // (is_send, handle, alive)
    let mut stream: Option<u8> = None;
    let mut aux = 0u32;
    let one_poll = |rng: &mut Rng| -> PollPlan {
        match rng.below(10) {
            0 => PollPlan { never_poll: true, acts: vec![], repoll_after_ready: false },
            1 | 2 => PollPlan { never_poll: false, acts: vec![PollAct::Cancel { steps: rng.below(4) as u16 }], repoll_after_ready: rng.chance(1, 2) },
            _ => PollPlan { never_poll: false, acts: vec![PollAct::CancelNow], repoll_after_ready: rng.chance(1, 4) },
        }
    };
    let mut attempts = 0;
    // a few runs push a long backlog through an unbounded channel (the queue starts with room for 32 values)
    let bulk = cap == Cap::Unbounded && rng.chance(1, 6);
    // a share of the runs starts with a wait-list stress phase: several pending futures of one side are
    // registered, some are dropped / re-polled, then the other side is served
    let stress = rng.chance(1, 5);
    let mut forced: Vec<Op> = Vec::new();
    if stress {
        let send_side = rng.chance(2, 3);
        let k = rng.range(2, 10) as usize;
        if send_side {
            // fill the buffer first so that the futures have to wait
            if let Cap::Bounded(n) = cap {
                for _ in 0..n {
                    forced.push(Op::TrySend { h: 0, id: 0 });
                }
            }
        }
        for j in 0..k {
            forced.push(if send_side { Op::FutSend { h: 0, id: 0 } } else { Op::FutRecv { h: 1 } });
            forced.push(Op::FutPoll { f: j as u8, new_waker: false });
        }
        for _ in 0..rng.range(1, 3) {
            let f = rng.below(k as u64) as u8;
            forced.push(if rng.chance(2, 3) { Op::FutDrop { f } } else { Op::FutPoll { f, new_waker: rng.chance(1, 2) } });
        }
        for _ in 0..k + 1 {
            forced.push(if send_side {
                match rng.below(4) {
                    0 => Op::TryRecv { h: 1 },
                    1 => Op::RecvTimeout { h: 1, us: 0 },
                    2 => Op::Drain { h: 1, pre: 0, spare: 0 },
                    _ => Op::TryRecvRt { h: 1 },
                }
            } else {
                match rng.below(3) {
                    0 => Op::TrySend { h: 0, id: 0 },
                    1 => Op::SendTimeout { h: 0, id: 0, us: 0 },
                    _ => Op::TrySendOpt { h: 0, id: 0 },
                }
            });
        }
        for j in 0..k {
            forced.push(Op::FutPoll { f: j as u8, new_waker: false });
        }
        forced.reverse();
    }
    if bulk {
        let n = rng.range(30, 75);
        let mut b = Vec::new();
        for _ in 0..n {
            b.push(match rng.below(8) {
                0 | 1 => Op::TrySend { h: 0, id: 0 },
                2 => Op::TrySendOpt { h: 0, id: 0 },
                3 | 4 => Op::TrySendRt { h: 0, id: 0 },
                5 => Op::TrySendOptRt { h: 0, id: 0 },
                6 => Op::SendTimeout { h: 0, id: 0, us: 0 },
                _ => Op::Observe { h: 1, what: Obs::Len },
            });
        }
        for _ in 0..rng.range(0, 40) {
            b.push(if rng.chance(1, 6) { Op::Drain { h: 1, pre: 0, spare: 0 } } else { Op::TryRecv { h: 1 } });
        }
        b.reverse();
        forced.extend(b);
    }
    while ops.len() < len || !forced.is_empty() {
        attempts += 1;
        if attempts > len * 20 + 100 {
            break;
        }
        let live = |side: Side, slots: &Vec<Slot>| -> Vec<u8> {
            slots.iter().enumerate().filter(|(_, s)| s.live && s.side == side).map(|(i, _)| i as u8).collect()
        };
        let ls = live(Side::S, &slots);
        let lr = live(Side::R, &slots);
        let g = rng.weighted(&w);
        let op: Option<Op> = match g {
            0 | 1 if !ls.is_empty() => {
                let h = *rng.pick(&ls);
                let id = next_id;
                let us = *rng.pick(&[0u32, 0, 5, u32::MAX]);
                let o = match rng.below(9) {
                    0 => Op::Send { h, id },
                    1 => Op::SendTimeout { h, id, us },
                    2 => Op::SendOptTimeout { h, id, us },
                    3 => Op::TrySend { h, id },
                    4 => Op::TrySendOpt { h, id },
                    5 => Op::TrySendRt { h, id },
                    6 => Op::TrySendOptRt { h, id },
                    _ => Op::ASend { h, id, plan: one_poll(rng) },
                };
                Some(o)
            }
            2 | 3 if !lr.is_empty() => {
                let h = *rng.pick(&lr);
                let us = *rng.pick(&[0u32, 0, 5, u32::MAX]);
                let o = match rng.below(8) {
                    0 => Op::Recv { h },
                    1 => Op::RecvTimeout { h, us },
                    2 => Op::TryRecv { h },
                    3 => Op::TryRecvRt { h },
                    4 => {
                        let pre = if aux < 50 { rng.below(3) as u8 } else { 0 };
                        aux += pre as u32;
                        Op::Drain { h, pre, spare: *rng.pick(&[0u8, 1, 4]) }
                    }
                    5 => Op::Iter { h, n: rng.range(1, 3) as u8 },
                    _ => Op::ARecv { h, plan: one_poll(rng) },
                };
                Some(o)
            }
            4 => {
                // explicit futures
                match rng.below(5) {
                    0 if !ls.is_empty() && futs.len() < 12 => Some(Op::FutSend { h: *rng.pick(&ls), id: next_id }),
                    1 if !lr.is_empty() && futs.len() < 12 => Some(Op::FutRecv { h: *rng.pick(&lr) }),
                    2 | 3 if !futs.is_empty() => Some(Op::FutPoll { f: rng.below(futs.len() as u64) as u8, new_waker: rng.chance(1, 3) }),
                    _ if !futs.is_empty() => Some(Op::FutDrop { f: rng.below(futs.len() as u64) as u8 }),
                    _ => None,
                }
            }
            5 if !lr.is_empty() || stream.is_some() => match (stream, rng.below(6)) {
                (None, _) => Some(Op::StreamOpen { h: *rng.pick(&lr) }),
                (Some(_), 0) => Some(Op::StreamDrop),
                (Some(_), _) => Some(Op::StreamNext {
                    plan: PollPlan { never_poll: false, acts: vec![PollAct::CancelNow], repoll_after_ready: rng.chance(1, 3) },
                }),
            },
            6 => {
                let all: Vec<u8> = slots.iter().enumerate().filter(|(_, s)| s.live).map(|(i, _)| i as u8).collect();
                if all.is_empty() || slots.len() >= 12 {
                    None
                } else {
                    Some(Op::Clone { h: *rng.pick(&all), kind: *rng.pick(&[CloneKind::Same, CloneKind::Sync, CloneKind::Async]) })
                }
            }
            7 => {
                let all: Vec<u8> = slots.iter().enumerate().filter(|(_, s)| s.live && s.borrows == 0).map(|(i, _)| i as u8).collect();
                if all.is_empty() {
                    None
                } else if rng.chance(1, 2) {
                    Some(Op::Convert { h: *rng.pick(&all) })
                } else {
                    Some(Op::DropHandle { h: *rng.pick(&all) })
                }
            }
            8 => {
                let all: Vec<u8> = slots.iter().enumerate().filter(|(_, s)| s.live).map(|(i, _)| i as u8).collect();
                if all.is_empty() || !rng.chance(1, 3) {
                    None
                } else {
                    Some(Op::Close { h: *rng.pick(&all) })
                }
            }
            9 | 10 => {
                let all: Vec<u8> = slots.iter().enumerate().filter(|(_, s)| s.live).map(|(i, _)| i as u8).collect();
                if all.is_empty() {
                    None
                } else {
                    let h = *rng.pick(&all);
                    let obs = [
                        Obs::Len,
                        Obs::IsEmpty,
                        Obs::IsFull,
                        Obs::Capacity,
                        Obs::IsBounded,
                        Obs::SenderCount,
                        Obs::ReceiverCount,
                        Obs::IsClosed,
                        Obs::IsDisconnected,
                        Obs::IsTerminated,
                    ];
                    let n = if slots[h as usize].side == Side::R { 10 } else { 9 };
                    Some(Op::Observe { h, what: obs[rng.below(n) as usize] })
                }
            }
            11 if !ls.is_empty() && rng.chance(1, 4) => Some(Op::SendNone { h: *rng.pick(&ls), which: rng.below(3) as u8 }),
            _ => None,
        };
        // forced operations of the stress phase take precedence (ids are assigned here)
        let op = match forced.pop() {
            Some(mut f) => {
                match &mut f {
                    Op::TrySend { id, .. }
                    | Op::FutSend { id, .. }
                    | Op::SendTimeout { id, .. }
                    | Op::TrySendOpt { id, .. }
                    | Op::TrySendRt { id, .. }
                    | Op::TrySendOptRt { id, .. } => *id = next_id,
                    _ => {}
                }
                Some(f)
            }
            None => op,
        };
        let Some(mut op) = op else { continue };
        // blocking calls only when the model says they complete at once
        if sm.would_block(&op) {
            op = match op {
                Op::Send { h, id } => Op::SendTimeout { h, id, us: 0 },
                Op::Recv { h } => Op::RecvTimeout { h, us: 0 },
                Op::Iter { h, .. } => Op::TryRecv { h },
                Op::SendTimeout { h, id, .. } => Op::SendTimeout { h, id, us: 0 },
                Op::SendOptTimeout { h, id, .. } => Op::SendOptTimeout { h, id, us: 0 },
                Op::RecvTimeout { h, .. } => Op::RecvTimeout { h, us: 0 },
                x => x,
            };
        }
        // Iter needs an owned, unborrowed sync receiver
        if let Op::Iter { h, .. } = op {
            let s = slots[h as usize];
            if !s.sync || s.borrows > 0 {
                op = Op::TryRecv { h };
            }
        }
        // bookkeeping mirrors the interpreter's
        match &op {
            Op::FutSend { h, .. } => {
                futs.push((true, *h, true));
                slots[*h as usize].borrows += 1;
            }
            Op::FutRecv { h } => {
                futs.push((false, *h, true));
                slots[*h as usize].borrows += 1;
            }
            Op::FutDrop { f } => {
                let (_, h, alive) = futs[*f as usize];
                if alive {
                    futs[*f as usize].2 = false;
                    slots[h as usize].borrows -= 1;
                }
            }
            Op::StreamOpen { h } => {
                stream = Some(*h);
                slots[*h as usize].borrows += 1;
            }
            Op::StreamDrop => {
                if let Some(h) = stream.take() {
                    slots[h as usize].borrows -= 1;
                }
            }
            Op::Clone { h, kind } => {
                let s = slots[*h as usize];
                let sync = match kind {
                    CloneKind::Same => s.sync,
                    CloneKind::Sync => true,
                    CloneKind::Async => false,
                };
                slots.push(Slot { side: s.side, live: true, borrows: 0, sync });
            }
            Op::Convert { h } => slots[*h as usize].sync = !slots[*h as usize].sync,
            Op::DropHandle { h } => slots[*h as usize].live = false,
            _ => {}
        }
        if op.send_id().is_some() {
            next_id += 1;
        }
        let via = match &op {
            Op::Clone { h, .. } | Op::DropHandle { h } | Op::Observe { h, .. } | Op::Close { h } => Some(slots[*h as usize].side),
            _ => None,
        };
        let _ = sm.step(&op, via, false);
        ops.push(op);
        if next_id >= 150 {
            break;
        }
    }
    let mut knobs = Knobs::default();
    knobs.monitors = false;
    knobs.time = TimeS::Tick;
    knobs.spin = [*rng.pick(&[0u16, 1, 3]), *rng.pick(&[0u16, 1, 3]), *rng.pick(&[0u16, 1, 3])];
    knobs.parallelism = *rng.pick(&[1u8, 4]);
    Case { cap, ctor, class, mask: rng.next(), knobs, tasks: vec![TaskSpec { handles, ops }], main_keeps_roots: false, lock_harness: false, epilogue: vec![], balanced: false }
}


// ------------------------------------------------------------------ systematic sweep

pub const CORE_ALPHABET: usize = 26;

fn core_op(k: usize, next_id: &mut u32) -> Op {
    let mut id = || {
        let i = *next_id;
        *next_id += 1;
        i
    };
    let once = PollPlan { never_poll: false, acts: vec![PollAct::CancelNow], repoll_after_ready: false };
    match k {
        0 => Op::Send { h: 0, id: id() },
        1 => Op::TrySend { h: 0, id: id() },
        2 => Op::TrySendOpt { h: 0, id: id() },
        3 => Op::SendTimeout { h: 0, id: id(), us: 0 },
        4 => Op::ASend { h: 0, id: id(), plan: once },
        5 => Op::FutSend { h: 0, id: id() },
        6 => Op::Recv { h: 1 },
        7 => Op::TryRecv { h: 1 },
        8 => Op::RecvTimeout { h: 1, us: 0 },
        9 => Op::Drain { h: 1, pre: 1, spare: 0 },
        10 => Op::ARecv { h: 1, plan: once },
        11 => Op::FutRecv { h: 1 },
        12 => Op::FutPoll { f: 0, new_waker: false },
        13 => Op::FutPoll { f: 1, new_waker: true },
        14 => Op::FutDrop { f: 0 },
        15 => Op::Clone { h: 0, kind: CloneKind::Async },
        16 => Op::Clone { h: 1, kind: CloneKind::Sync },
        17 => Op::DropHandle { h: 0 },
        18 => Op::DropHandle { h: 1 },
        19 => Op::Close { h: 1 },
        20 => Op::Observe { h: 1, what: Obs::Len },
        21 => Op::Observe { h: 0, what: Obs::IsFull },
        22 => Op::Observe { h: 1, what: Obs::IsTerminated },
        23 => Op::Observe { h: 0, what: Obs::IsDisconnected },
        24 => Op::StreamNext { plan: once },
        _ => Op::Observe { h: 1, what: Obs::SenderCount },
    }
}

/// number of enumerated cases for sequences of length 1..=max_len over the core alphabet x 4 capacities
pub fn enum_count(max_len: u32) -> u64 {
    let mut n = 0u64;
    for l in 1..=max_len {
        n += (CORE_ALPHABET as u64).pow(l);
    }
    n * 4
}

/// the index-th case of the systematic sweep
pub fn enum_seq(index: u64, max_len: u32) -> Case {
    let caps = [Cap::Bounded(0), Cap::Bounded(1), Cap::Bounded(2), Cap::Unbounded];
    let cap = caps[(index % 4) as usize];
    let mut i = index / 4;
    let mut len = 1u32;
    loop {
        let n = (CORE_ALPHABET as u64).pow(len);
        if i < n || len == max_len {
            break;
        }
        i -= n;
        len += 1;
    }
    let mut ks = Vec::new();
    for _ in 0..len {
        ks.push((i % CORE_ALPHABET as u64) as usize);
        i /= CORE_ALPHABET as u64;
    }
    let handles = vec![
        HandleSpec { side: Side::S, flavour: Flavour::Sync, derive: Derive::CloneAs },
        HandleSpec { side: Side::R, flavour: Flavour::Async, derive: Derive::CloneAs },
    ];
    let mut sm = SeqModel::new(cap);
    let mut next_id = 0u32;
    let mut ops = Vec::new();
    let mut dropped = [false, false];
    let mut stream_open = false;
    for k in ks {
        let mut op = core_op(k, &mut next_id);
        if let Op::StreamNext { .. } = op {
            if !stream_open && !dropped[1] {
                ops.push(Op::StreamOpen { h: 1 });
                let _ = sm.step(&Op::StreamOpen { h: 1 }, None, false);
                stream_open = true;
            }
        }
        // calls on dropped primary handles are skipped by the interpreter: keep the model in step
        let h = match &op {
            Op::Send { h, .. } | Op::TrySend { h, .. } | Op::TrySendOpt { h, .. } | Op::SendTimeout { h, .. } | Op::ASend { h, .. } | Op::FutSend { h, .. } => Some(*h),
            Op::Recv { h } | Op::TryRecv { h } | Op::RecvTimeout { h, .. } | Op::Drain { h, .. } | Op::ARecv { h, .. } | Op::FutRecv { h } => Some(*h),
            Op::Clone { h, .. } | Op::DropHandle { h } | Op::Close { h } | Op::Observe { h, .. } => Some(*h),
            _ => None,
        };
        if let Some(h) = h {
            if dropped[h as usize] {
                continue;
            }
        }
        if sm.would_block(&op) {
            op = match op {
                Op::Send { h, id } => Op::SendTimeout { h, id, us: 0 },
                Op::Recv { h } => Op::RecvTimeout { h, us: 0 },
                x => x,
            };
        }
        // the interpreter refuses to drop a handle that a live future or the stream borrows
        if let Op::DropHandle { h } = op {
            if (h == 1 && stream_open) || sm_borrowed(&ops, h) {
                continue;
            }
            dropped[h as usize] = true;
        }
        let via = h.map(|h| if h == 0 || matches!(op, Op::Clone { h: 0, .. }) { Side::S } else { Side::R });
        let _ = sm.step(&op, via, false);
        ops.push(op);
    }
    let mut knobs = Knobs::default();
    knobs.monitors = false;
    knobs.spin = [1, 1, 1];
    Case { cap, ctor: Flavour::Sync, class: Class::SmallDrop, mask: 0x5555_AAAA_1234_F0F0 ^ index, knobs, tasks: vec![TaskSpec { handles, ops }], main_keeps_roots: false, lock_harness: false, epilogue: vec![], balanced: false }
}

fn sm_borrowed(ops: &[Op], h: u8) -> bool {
    // is there a live explicit future created from handle h?
    let mut live: Vec<(u8, bool)> = Vec::new();
    for o in ops {
        match o {
            Op::FutSend { h, .. } => live.push((*h, true)),
            Op::FutRecv { h } => live.push((*h, true)),
            Op::FutDrop { f } => {
                if let Some(x) = live.get_mut(*f as usize) {
                    x.1 = false;
                }
            }
            _ => {}
        }
    }
    live.iter().any(|(hh, alive)| *hh == h && *alive)
}
