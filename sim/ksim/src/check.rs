//! Registry of checks: for each property its generator, its oracles, its run
//! counts per tier and the text that goes into the evidence file.

use crate::case::Case;
use crate::gen;
use crate::oracle::{self, RunData, Violation};
use crate::util::Rng;

pub struct CheckDef {
    pub prop: &'static str,
    pub quick_runs: u64,
    pub thorough_runs: u64,
    pub level: &'static str,
    pub rule: &'static str,
}

pub const PROPS: &[&str] = &["C01", "C02", "C04", "C05", "C06", "C07", "C03", "C08", "C09", "C10", "C11", "C12", "C13", "C14", "C15", "C16", "C17", "C18", "C19"];

pub fn def(prop: &str) -> Option<CheckDef> {
    let rule_mpmc = "cases drawn from the run seed by the role-separated mpmc generator (tasks x ops x capacity x payload class x handle flavours x poll plans x fault knobs); a case is non-trivial when operations of at least two tasks overlapped in simulated real time; distinct = distinct (workload shape hash [capacity, constructor, payload class, tasks; not the bit mask or the scheduler knobs], op-level history hash [task, op, result in invocation order]) pairs";
    let d = match prop {
        "C01" => CheckDef { prop: "C01", quick_runs: 1_000_000, thorough_runs: 30_000_000, level: "exploration", rule: rule_mpmc },
        "C02" => CheckDef { prop: "C02", quick_runs: 1_000_000, thorough_runs: 30_000_000, level: "exploration", rule: rule_mpmc },
        "C04" => CheckDef { prop: "C04", quick_runs: 1_000_000, thorough_runs: 30_000_000, level: "exploration", rule: rule_mpmc },
        "C05" => CheckDef { prop: "C05", quick_runs: 1_000_000, thorough_runs: 30_000_000, level: "exploration", rule: rule_mpmc },
        "C06" => CheckDef { prop: "C06", quick_runs: 1_000_000, thorough_runs: 30_000_000, level: "exploration", rule: rule_mpmc },
        "C07" => CheckDef { prop: "C07", quick_runs: 1_000_000, thorough_runs: 30_000_000, level: "exploration", rule: rule_mpmc },
        "C08" => CheckDef { prop: "C08", quick_runs: 1_000_000, thorough_runs: 30_000_000, level: "exploration", rule: rule_mpmc },
        "C09" => CheckDef { prop: "C09", quick_runs: 1_000_000, thorough_runs: 30_000_000, level: "exploration", rule: rule_mpmc },
        "C10" | "C11" | "C12" | "C13" | "C14" | "C15" | "C16" | "C19" => {
            let p: &'static str = match prop {
                "C10" => "C10",
                "C11" => "C11",
                "C12" => "C12",
                "C13" => "C13",
                "C14" => "C14",
                "C15" => "C15",
                "C16" => "C16",
                _ => "C19",
            };
            // C14 judges every completed run with the exhaustive explainability search, which is an order of magnitude
            // dearer on the larger programs of the thorough tier: 10 M runs there cost what 30 M cost elsewhere
            CheckDef { prop: p, quick_runs: 1_000_000, thorough_runs: if p == "C14" { 10_000_000 } else { 30_000_000 }, level: "exploration", rule: rule_mpmc }
        }
        "C17" => CheckDef {
            prop: "C17",
            quick_runs: 1_000_000,
            thorough_runs: 30_000_000,
            level: "exploration",
            rule: "2-4 tasks x 1-4 lock/try_lock/yield operations on kanal's internal lock (lock_api mutex over RawMutexLock), with a non-atomic read-modify-write inside the critical section, parallelism 1 and 4, stalls and freezes of the holder; non-trivial = operations of two tasks overlapped; distinct = distinct (workload shape hash, history hash) pairs",
        },
        "C03" => CheckDef {
            prop: "C03",
            quick_runs: 1_000_000,
            thorough_runs: 30_000_000,
            level: "exploration",
            rule: "small multi-task programs (2-3 tasks x 1-3 calls over the whole API: every send/receive variant, drain, iterator, close, clone/convert/drop, all observers; tasks may hold both sides) run under seeded schedules; the observed results are accepted only if an exhaustive memoised search over the reference channel's atomic-step interleavings reproduces them; non-trivial = operations of two tasks overlapped; distinct = distinct (workload shape hash, history hash) pairs",
        },
        "C18" => CheckDef {
            prop: "C18",
            quick_runs: 1_200_000,
            thorough_runs: 30_000_000,
            level: "exploration",
            rule: "single-task call sequences compared call by call with the reference model: first the systematic sweep of ALL sequences of length <= 3 (quick) / <= 4 (thorough) over a 26-call core alphabet x capacities {0,1,2,unbounded}, then seeded random sequences of length <= 40 over the full API alphabet with per-run alphabet subsets; non-trivial = at least 2 calls; distinct = distinct (workload shape hash, history hash) pairs",
        },
        _ => return None,
    };
    Some(d)
}

pub fn make_case(prop: &str, run_seed: u64, index: u64, tier: &str) -> Case {
    let mut rng = Rng::new(run_seed);
    if prop == "C17" {
        return crate::lockh::gen_lock_case(&mut rng);
    }
    // fault enumeration: every third run takes its fault placement from the run index
    if prop == "C15" && index % 3 == 0 {
        return crate::enumcases::c15_case((index / 3) % crate::enumcases::C15_COMBOS, &mut rng);
    }
    if prop == "C14" && index % 3 == 0 {
        return crate::enumcases::c14_case((index / 3) % crate::enumcases::C14_COMBOS, &mut rng);
    }
    if prop == "C18" {
        let max_len = if tier == "thorough" { 4 } else { 3 };
        let n = crate::seq::enum_count(max_len);
        if index < n {
            return crate::seq::enum_seq(index, max_len);
        }
        return crate::seq::gen_seq(&mut rng, 40);
    }
    // one run in seven of the checks that speak about futures / progress / mixed flavours is a
    // "balanced executors" case: several futures of both sides driven by one executor per task
    if matches!(prop, "C06" | "C09" | "C16") && index % 7 == 3 {
        let p = gen::profile_for(prop);
        return gen::gen_exec_case(&mut rng, &p, tier == "thorough");
    }
    let mut p = gen::profile_for(prop);
    if tier == "thorough" {
        // the thorough tier also explores larger programs: more operations per task, up to three tasks per side
        p.ops.1 += 3;
        if p.senders.1 >= 2 {
            p.senders.1 = 3;
        }
        if p.receivers.1 >= 2 {
            p.receivers.1 = 3;
        }
    }
    gen::gen_case(&mut rng, &p)
}

pub fn evaluate(prop: &str, d: &RunData) -> (Vec<Violation>, Vec<Violation>) {
    if prop == "C17" {
        let a = oracle::Analysis::new(d);
        let all = oracle::o_abort(&a);
        let owned = ["cs/", "hb/race", "lock/", "hang/"];
        return all.into_iter().partition(|x| owned.iter().any(|p| x.sig.starts_with(p)));
    }
    if prop == "C03" {
        let a = oracle::Analysis::new(d);
        let mut all = oracle::o_abort(&a);
        all.extend(crate::explain::o_explain(d).0);
        // two channel operations that are not ordered by happens-before are not atomic with respect to each other
        let owned = ["explain/none", "panic/undocumented", "hb/race/", "cs/"];
        return all.into_iter().partition(|x| owned.iter().any(|p| x.sig.starts_with(p)));
    }
    if prop == "C18" {
        let a = oracle::Analysis::new(d);
        let mut all = oracle::o_abort(&a);
        all.extend(crate::seq::o_seq(d));
        all.extend(oracle::o_drops(&a));
        all.extend(oracle::o_delivery(&a));
        let owned = ["model/diff", "panic/undocumented", "ledger/", "hang/", "wait/"];
        return all.into_iter().partition(|x| owned.iter().any(|p| x.sig.starts_with(p)));
    }
    oracle::evaluate(prop, d)
}
