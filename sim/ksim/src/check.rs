//! Registry of checks: for each property its generator, its oracles, its run
//! counts per tier and the text that goes into the evidence file.

use crate::case::Case;
use crate::gen;
use crate::oracle::{self, RunData, Violation};
use crate::util::Rng;

pub struct CheckDef {
    pub prop: &'static str,
    pub quick_runs: u64,
    pub thorough_runs: u64,
    pub level: &'static str,
    pub rule: &'static str,
}

pub const PROPS: &[&str] = &["C01", "C02", "C04", "C05", "C06", "C07", "C08", "C09"];

pub fn def(prop: &str) -> Option<CheckDef> {
    let rule_mpmc = "cases drawn from the run seed by the role-separated mpmc generator (tasks x ops x capacity x payload class x handle flavours x poll plans x fault knobs); a case is non-trivial when operations of at least two tasks overlapped in simulated real time; distinct = distinct (case hash, op-level history hash) pairs";
    let d = match prop {
        "C01" => CheckDef { prop: "C01", quick_runs: 120_000, thorough_runs: 6_000_000, level: "exploration", rule: rule_mpmc },
        "C02" => CheckDef { prop: "C02", quick_runs: 120_000, thorough_runs: 6_000_000, level: "exploration", rule: rule_mpmc },
        "C04" => CheckDef { prop: "C04", quick_runs: 120_000, thorough_runs: 6_000_000, level: "exploration", rule: rule_mpmc },
        "C05" => CheckDef { prop: "C05", quick_runs: 120_000, thorough_runs: 6_000_000, level: "exploration", rule: rule_mpmc },
        "C06" => CheckDef { prop: "C06", quick_runs: 120_000, thorough_runs: 6_000_000, level: "exploration", rule: rule_mpmc },
        "C07" => CheckDef { prop: "C07", quick_runs: 120_000, thorough_runs: 6_000_000, level: "exploration", rule: rule_mpmc },
        "C08" => CheckDef { prop: "C08", quick_runs: 120_000, thorough_runs: 6_000_000, level: "exploration", rule: rule_mpmc },
        "C09" => CheckDef { prop: "C09", quick_runs: 120_000, thorough_runs: 6_000_000, level: "exploration", rule: rule_mpmc },
        _ => return None,
    };
    Some(d)
}

pub fn make_case(prop: &str, run_seed: u64, _index: u64) -> Case {
    let mut rng = Rng::new(run_seed);
    let p = gen::profile_for(prop);
    gen::gen_case(&mut rng, &p)
}

pub fn evaluate(prop: &str, d: &RunData) -> (Vec<Violation>, Vec<Violation>) {
    oracle::evaluate(prop, d)
}
