//! The case interpreter: runs a `Case` against the real kanal (compiled with the
//! simulation seams) inside one simulated execution, with the harness's own
//! executor for futures, and records the stamped history.

use crate::case::*;
use crate::payload::{self, Ident, Payload};
use futures_core::Stream;
use kanal::{
    AsyncReceiver, AsyncSender, ReceiveError, ReceiveErrorTimeout, ReceiveFuture, ReceiveStream, Receiver, SendError,
    SendErrorTimeout, SendFuture, Sender,
};
use kanal_verif_rt as rt;
use serde::{Deserialize, Serialize};
use std::cell::RefCell;
use std::future::Future;
use std::panic::{catch_unwind, AssertUnwindSafe};
use std::pin::Pin;
use std::rc::Rc;
use std::sync::atomic::{AtomicBool, AtomicU32, Ordering as O};
use std::sync::Arc;
use std::task::{Context, Poll, Wake, Waker};
use std::time::Duration;

#[derive(Clone, Copy, Debug, PartialEq, Eq, Hash, Serialize, Deserialize)]
pub enum E {
    Closed,
    SendClosed,
    ReceiveClosed,
    Timeout,
}

#[derive(Clone, Debug, PartialEq, Eq, Hash, Serialize, Deserialize)]
pub enum Res {
    /// op not applicable in this state (missing handle etc.); no effect
    Skipped,
    /// invoked but never returned (run ended first)
    Incomplete,
    SendOk,
    /// try_* refused: Ok(false)
    SendRefused,
    SendErr(E),
    RecvOk(Ident),
    /// try_recv*: Ok(None)
    RecvNone,
    RecvErr(E),
    /// stream ended (None)
    StreamEnd,
    Drained { ret: usize, appended: Vec<Ident>, prefix_ok: bool },
    IterVals(Vec<Ident>),
    /// single poll returned Pending
    Pending,
    /// the future was dropped by the plan before completing
    Cancelled,
    Panicked(String),
    Obs(u64),
    CloseOk,
    CloseErr,
    Unit,
}

#[derive(Clone, Debug, PartialEq, Eq, Hash, Serialize, Deserialize)]
pub enum OptAfter {
    NotOption,
    Taken,
    Back(Ident),
}

#[derive(Clone, Debug, Serialize, Deserialize)]
pub struct Rec {
    pub task: u8,
    /// index in the task's op list (implicit end-of-task drops continue the numbering)
    pub idx: u16,
    pub op: Op,
    pub inv: u64,
    pub ret: u64,
    pub vt0: u64,
    pub vt1: u64,
    pub res: Res,
    pub opt: OptAfter,
    /// stamp at which the op registered in the wait list (push_send / push_recv probe)
    pub reg: Option<u64>,
    /// stamp of the op's LAST registration (an implementation may re-queue a waiter, e.g. when its waker changes)
    pub reg_last: Option<u64>,
    pub polls: u16,
    /// kanal probes hit by this task during the op
    pub probes: Vec<u32>,
    /// for repoll_after_ready: what the extra poll did
    pub repoll: Option<String>,
    /// side and flavour of the handle the op went through
    pub via: Option<(Side, Flavour)>,
    /// decisions taken while the op ran
    pub steps: u32,
    /// decisions taken by the calling task itself while the op ran
    pub own: u32,
}

pub struct SimWaker {
    pub task: usize,
    pub flag: AtomicBool,
    pub wakes: AtomicU32,
}
impl SimWaker {
    fn new(task: usize) -> Arc<SimWaker> {
        Arc::new(SimWaker { task, flag: AtomicBool::new(false), wakes: AtomicU32::new(0) })
    }
}
impl Wake for SimWaker {
    fn wake(self: Arc<Self>) {
        self.wake_by_ref()
    }
    fn wake_by_ref(self: &Arc<Self>) {
        self.flag.store(true, O::Relaxed);
        self.wakes.fetch_add(1, O::Relaxed);
        rt::unpark(self.task);
    }
}

#[derive(Default)]
pub struct InFlight {
    pub rec: Option<usize>,
    pub wakers: Vec<Arc<SimWaker>>,
}

#[derive(Default)]
pub struct RunLog {
    pub recs: Vec<Rec>,
    pub inflight: Vec<InFlight>,
    pub harness_notes: Vec<String>,
    /// fault kinds that actually fired in the harness executor:
    /// 0 spurious polls, 1 waker replaced, 2 cancel while pending, 3 never-polled drop, 4 polls total, 5 re-poll after ready
    pub counters: [u64; 8],
}

pub type Log = Rc<RefCell<RunLog>>;

pub enum H<P> {
    S(Sender<P>),
    AS(AsyncSender<P>),
    R(Receiver<P>),
    AR(AsyncReceiver<P>),
}

macro_rules! on_any {
    ($h:expr, $x:ident => $e:expr) => {
        match $h {
            H::S($x) => $e,
            H::AS($x) => $e,
            H::R($x) => $e,
            H::AR($x) => $e,
        }
    };
}

impl<P> H<P> {
    fn side(&self) -> Side {
        match self {
            H::S(_) | H::AS(_) => Side::S,
            _ => Side::R,
        }
    }
    fn flavour(&self) -> Flavour {
        match self {
            H::S(_) | H::R(_) => Flavour::Sync,
            _ => Flavour::Async,
        }
    }
    fn sync_sender(&self) -> Option<&Sender<P>> {
        match self {
            H::S(s) => Some(s),
            H::AS(s) => Some(s.as_sync()),
            _ => None,
        }
    }
    fn async_sender(&self) -> Option<&AsyncSender<P>> {
        match self {
            H::S(s) => Some(s.as_async()),
            H::AS(s) => Some(s),
            _ => None,
        }
    }
    fn sync_receiver(&self) -> Option<&Receiver<P>> {
        match self {
            H::R(r) => Some(r),
            H::AR(r) => Some(r.as_sync()),
            _ => None,
        }
    }
    fn async_receiver(&self) -> Option<&AsyncReceiver<P>> {
        match self {
            H::R(r) => Some(r.as_async()),
            H::AR(r) => Some(r),
            _ => None,
        }
    }
}

enum FutSlot<P: 'static> {
    Send(Pin<Box<SendFuture<'static, P>>>, usize),
    Recv(Pin<Box<ReceiveFuture<'static, P>>>, usize),
}

struct FutState<P: 'static> {
    fut: FutSlot<P>,
    waker: Arc<SimWaker>,
}

struct TaskCtx<P: Payload> {
    tid: usize,
    handles: Vec<Option<Box<H<P>>>>,
    borrows: Vec<u32>,
    futs: Vec<Option<FutState<P>>>,
    stream: Option<(Pin<Box<ReceiveStream<'static, P>>>, usize)>,
    log: Log,
    cur: usize,
    polls: u16,
}

/// durations in the case language are microseconds; u32::MAX stands for `Duration::MAX`
fn dur(us: u32) -> Duration {
    if us == u32::MAX {
        Duration::MAX
    } else {
        Duration::from_micros(us as u64)
    }
}

fn se(e: SendError) -> E {
    match e {
        SendError::Closed => E::Closed,
        SendError::ReceiveClosed => E::ReceiveClosed,
    }
}
fn set(e: SendErrorTimeout) -> E {
    match e {
        SendErrorTimeout::Closed => E::Closed,
        SendErrorTimeout::ReceiveClosed => E::ReceiveClosed,
        SendErrorTimeout::Timeout => E::Timeout,
    }
}
fn re(e: ReceiveError) -> E {
    match e {
        ReceiveError::Closed => E::Closed,
        ReceiveError::SendClosed => E::SendClosed,
    }
}
fn ret_(e: ReceiveErrorTimeout) -> E {
    match e {
        ReceiveErrorTimeout::Closed => E::Closed,
        ReceiveErrorTimeout::SendClosed => E::SendClosed,
        ReceiveErrorTimeout::Timeout => E::Timeout,
    }
}

/// phase tags inside the ledger's drop context
pub const PH_CALL: u64 = 0;
pub const PH_HARNESS: u64 = 1;

impl<P: Payload> TaskCtx<P> {
    fn begin(&mut self, idx: usize, op: &Op) -> usize {
        let mut l = self.log.borrow_mut();
        let r = l.recs.len();
        l.recs.push(Rec {
            task: self.tid as u8,
            idx: idx as u16,
            op: op.clone(),
            inv: rt::stamp(),
            ret: 0,
            vt0: rt::peek_ns(),
            vt1: 0,
            res: Res::Incomplete,
            opt: OptAfter::NotOption,
            reg: None,
            reg_last: None,
            polls: 0,
            probes: Vec::new(),
            repoll: None,
            via: None,
            steps: rt::steps() as u32,
            own: rt::exec::own_steps() as u32,
        });
        l.inflight[self.tid].rec = Some(r);
        l.inflight[self.tid].wakers.clear();
        drop(l);
        self.cur = r;
        self.polls = 0;
        rt::set_ctx(((r as u64) << 8) | PH_CALL);
        let _ = rt::take_probe_log();
        r
    }
    fn end(&mut self, r: usize, res: Res, opt: OptAfter) {
        let pl = rt::take_probe_log();
        let mut l = self.log.borrow_mut();
        let polls = self.polls;
        let rec = &mut l.recs[r];
        rec.ret = rt::stamp();
        rec.vt1 = rt::peek_ns();
        rec.res = res;
        rec.opt = opt;
        rec.polls = polls;
        rec.steps = (rt::steps() as u32).wrapping_sub(rec.steps);
        rec.own = (rt::exec::own_steps() as u32).wrapping_sub(rec.own);
        for (id, st) in pl {
            if id == rt::probe::PUSH_SEND || id == rt::probe::PUSH_RECV {
                if rec.reg.is_none() {
                    rec.reg = Some(st);
                }
                rec.reg_last = Some(rec.reg_last.map_or(st, |x| x.max(st)));
            }
            if !rec.probes.contains(&id) {
                rec.probes.push(id);
            }
        }
        l.inflight[self.tid].rec = None;
        l.inflight[self.tid].wakers.clear();
    }
    fn set_via(&mut self, r: usize, h: &H<P>) {
        self.log.borrow_mut().recs[r].via = Some((h.side(), h.flavour()));
    }
    fn harness_phase(&self) {
        rt::set_ctx(((self.cur as u64) << 8) | PH_HARNESS);
    }
    fn call_phase(&self) {
        rt::set_ctx(((self.cur as u64) << 8) | PH_CALL);
    }
    fn handle(&self, h: u8) -> Option<&H<P>> {
        self.handles.get(h as usize).and_then(|x| x.as_deref())
    }
    /// a reference to the boxed handle that outlives `self` borrows (the box is
    /// never moved or freed while `borrows[h] > 0`)
    fn handle_static(&self, h: u8) -> Option<&'static H<P>> {
        self.handle(h).map(|x| unsafe { &*(x as *const H<P>) })
    }
    fn new_waker(&mut self) -> Arc<SimWaker> {
        let w = SimWaker::new(self.tid);
        self.log.borrow_mut().inflight[self.tid].wakers.push(w.clone());
        w
    }
    fn recv_ident(&self, v: P) -> Ident {
        let id = v.ident();
        self.harness_phase();
        drop(v);
        self.call_phase();
        id
    }

    /// The harness executor: drive `poll` according to `plan`.
    /// Returns None if the plan cancelled the operation.
    fn drive<T>(&mut self, plan: &PollPlan, mut poll: impl FnMut(&mut Context<'_>) -> Poll<T>) -> Option<T> {
        let mut waker = self.new_waker();
        let mut n_pending = 0usize;
        loop {
            self.polls += 1;
            self.log.borrow_mut().counters[4] += 1;
            let w = Waker::from(waker.clone());
            let mut cx = Context::from_waker(&w);
            // an executor consumes the wake-up before it polls: after a `Pending` it waits for a NEW wake-up
            // (a wake-up that arrives during the poll sets the flag again). Without this a legal early
            // wake-up would turn the loop into busy polling.
            waker.flag.store(false, O::Relaxed);
            match poll(&mut cx) {
                Poll::Ready(out) => return Some(out),
                Poll::Pending => {
                    let act = plan.acts.get(n_pending).copied().unwrap_or(PollAct::Wait);
                    n_pending += 1;
                    match act {
                        PollAct::Wait => wait_flag(&waker),
                        PollAct::WaitNewWaker => {
                            wait_flag(&waker);
                            waker = self.new_waker();
                            self.log.borrow_mut().counters[1] += 1;
                        }
                        PollAct::Spurious { steps, new_waker } => {
                            if !waker.flag.load(O::Relaxed) {
                                rt::park_steps(steps as u64);
                            }
                            if !waker.flag.load(O::Relaxed) {
                                self.log.borrow_mut().counters[0] += 1;
                            }
                            if new_waker {
                                waker = self.new_waker();
                                self.log.borrow_mut().counters[1] += 1;
                            }
                        }
                        PollAct::Cancel { steps } => {
                            if !waker.flag.load(O::Relaxed) {
                                rt::park_steps(steps as u64);
                            }
                            self.log.borrow_mut().counters[2] += 1;
                            return None;
                        }
                        PollAct::CancelNow => {
                            self.log.borrow_mut().counters[2] += 1;
                            return None;
                        }
                    }
                }
            }
        }
    }

    fn run_op(&mut self, idx: usize, op: &Op) {
        let r = self.begin(idx, op);
        // a panic that is not one of the documented ones (those are caught next to the call that must panic)
        // unwinds only the frames of this operation; the run then ends with a report instead of unwinding the
        // whole task (whose handle destructors would run kanal code while other tasks are abandoned)
        let out = catch_unwind(AssertUnwindSafe(|| self.exec_op(r, op)));
        match out {
            Ok((res, opt)) => self.end(r, res, opt),
            Err(_) => {
                let msg = rt::exec::LAST_PANIC.with(|p| p.borrow().clone());
                let loc = msg.rsplit(" @ ").next().unwrap_or("").to_string();
                self.end(r, Res::Panicked(msg.clone()), OptAfter::NotOption);
                rt::violation(&format!("panic/undocumented@{}", loc), format!("{:?} panicked: {}", op, msg));
            }
        }
    }

    fn exec_op(&mut self, r: usize, op: &Op) -> (Res, OptAfter) {
        let no = OptAfter::NotOption;
        macro_rules! sender {
            ($h:expr) => {
                match self.handle_static($h) {
                    Some(x) if x.side() == Side::S => {
                        self.set_via(r, x);
                        x
                    }
                    _ => return (Res::Skipped, no),
                }
            };
        }
        macro_rules! receiver {
            ($h:expr) => {
                match self.handle_static($h) {
                    Some(x) if x.side() == Side::R => {
                        self.set_via(r, x);
                        x
                    }
                    _ => return (Res::Skipped, no),
                }
            };
        }
        let send_res = |x: Result<(), SendError>| match x {
            Ok(()) => Res::SendOk,
            Err(e) => Res::SendErr(se(e)),
        };
        let try_res = |x: Result<bool, SendError>| match x {
            Ok(true) => Res::SendOk,
            Ok(false) => Res::SendRefused,
            Err(e) => Res::SendErr(se(e)),
        };
        match op {
            Op::Send { h, id } => {
                let s = sender!(*h).sync_sender().unwrap();
                (send_res(s.send(P::make(*id))), no)
            }
            Op::SendTimeout { h, id, us } => {
                let s = sender!(*h).sync_sender().unwrap();
                let x = s.send_timeout(P::make(*id), dur(*us));
                (
                    match x {
                        Ok(()) => Res::SendOk,
                        Err(e) => Res::SendErr(set(e)),
                    },
                    no,
                )
            }
            Op::SendOptTimeout { h, id, us } => {
                let s = sender!(*h).sync_sender().unwrap();
                let mut o = Some(P::make(*id));
                let x = s.send_option_timeout(&mut o, dur(*us));
                let oa = self.opt_after(o);
                (
                    match x {
                        Ok(()) => Res::SendOk,
                        Err(e) => Res::SendErr(set(e)),
                    },
                    oa,
                )
            }
            Op::TrySend { h, id } => {
                let s = sender!(*h);
                let v = P::make(*id);
                let x = match s {
                    H::S(s) => s.try_send(v),
                    H::AS(s) => s.try_send(v),
                    _ => unreachable!(),
                };
                (try_res(x), no)
            }
            Op::TrySendRt { h, id } => {
                let s = sender!(*h);
                let v = P::make(*id);
                let x = match s {
                    H::S(s) => s.try_send_realtime(v),
                    H::AS(s) => s.try_send_realtime(v),
                    _ => unreachable!(),
                };
                (try_res(x), no)
            }
            Op::TrySendOpt { h, id } => {
                let s = sender!(*h);
                let mut o = Some(P::make(*id));
                let x = match s {
                    H::S(s) => s.try_send_option(&mut o),
                    H::AS(s) => s.try_send_option(&mut o),
                    _ => unreachable!(),
                };
                let oa = self.opt_after(o);
                (try_res(x), oa)
            }
            Op::TrySendOptRt { h, id } => {
                let s = sender!(*h);
                let mut o = Some(P::make(*id));
                let x = match s {
                    H::S(s) => s.try_send_option_realtime(&mut o),
                    H::AS(s) => s.try_send_option_realtime(&mut o),
                    _ => unreachable!(),
                };
                let oa = self.opt_after(o);
                (try_res(x), oa)
            }
            Op::SendNone { h, which } => {
                let s = sender!(*h);
                let mut o: Option<P> = None;
                let x = catch_unwind(AssertUnwindSafe(|| match (s, which % 3) {
                    (H::S(s), 0) => s.try_send_option(&mut o).map(|_| ()).map_err(se),
                    (H::AS(s), 0) => s.try_send_option(&mut o).map(|_| ()).map_err(se),
                    (H::S(s), 1) => s.try_send_option_realtime(&mut o).map(|_| ()).map_err(se),
                    (H::AS(s), 1) => s.try_send_option_realtime(&mut o).map(|_| ()).map_err(se),
                    (x, _) => x.sync_sender().unwrap().send_option_timeout(&mut o, Duration::from_micros(0)).map_err(set),
                }));
                match x {
                    Err(_) => (Res::Panicked(rt::exec::LAST_PANIC.with(|p| p.borrow().clone())), no),
                    Ok(Ok(())) => (Res::SendOk, no),
                    Ok(Err(e)) => (Res::SendErr(e), no),
                }
            }
            Op::ASend { h, id, plan } => {
                let s = sender!(*h).async_sender().unwrap();
                let mut fut = Box::pin(s.send(P::make(*id)));
                if plan.never_poll {
                    drop(fut);
                    return (Res::Cancelled, no);
                }
                let out = self.drive(plan, |cx| fut.as_mut().poll(cx));
                match out {
                    None => {
                        drop(fut);
                        (Res::Cancelled, no)
                    }
                    Some(x) => {
                        if plan.repoll_after_ready {
                            let w = Waker::from(self.new_waker());
                            let mut cx = Context::from_waker(&w);
                            let p = catch_unwind(AssertUnwindSafe(|| fut.as_mut().poll(&mut cx).is_ready()));
                            self.note_repoll(r, p.map(|rdy| format!("returned ready={}", rdy)));
                        }
                        drop(fut);
                        (send_res(x), no)
                    }
                }
            }
            Op::Recv { h } => {
                let rx = receiver!(*h).sync_receiver().unwrap();
                match rx.recv() {
                    Ok(v) => (Res::RecvOk(self.recv_ident(v)), no),
                    Err(e) => (Res::RecvErr(re(e)), no),
                }
            }
            Op::RecvTimeout { h, us } => {
                let rx = receiver!(*h).sync_receiver().unwrap();
                match rx.recv_timeout(dur(*us)) {
                    Ok(v) => (Res::RecvOk(self.recv_ident(v)), no),
                    Err(e) => (Res::RecvErr(ret_(e)), no),
                }
            }
            Op::TryRecv { h } => {
                let x = match receiver!(*h) {
                    H::R(x) => x.try_recv(),
                    H::AR(x) => x.try_recv(),
                    _ => unreachable!(),
                };
                match x {
                    Ok(Some(v)) => (Res::RecvOk(self.recv_ident(v)), no),
                    Ok(None) => (Res::RecvNone, no),
                    Err(e) => (Res::RecvErr(re(e)), no),
                }
            }
            Op::TryRecvRt { h } => {
                let x = match receiver!(*h) {
                    H::R(x) => x.try_recv_realtime(),
                    H::AR(x) => x.try_recv_realtime(),
                    _ => unreachable!(),
                };
                match x {
                    Ok(Some(v)) => (Res::RecvOk(self.recv_ident(v)), no),
                    Ok(None) => (Res::RecvNone, no),
                    Err(e) => (Res::RecvErr(re(e)), no),
                }
            }
            Op::Drain { h, pre, spare } => {
                let hh = receiver!(*h);
                // prior contents are harness-made values with ids far above the case's ids
                let mut v: Vec<P> = Vec::with_capacity(*pre as usize + *spare as usize);
                let pre_ids: Vec<Ident> = (0..*pre as u32)
                    .map(|_| {
                        let p = P::make(if P::CLASS.has_id() { payload::aux_id() } else { 0 });
                        let id = p.ident();
                        v.push(p);
                        id
                    })
                    .collect();
                let x = match hh {
                    H::R(x) => x.drain_into(&mut v),
                    H::AR(x) => x.drain_into(&mut v),
                    _ => unreachable!(),
                };
                let prefix_ok = v.len() >= pre_ids.len() && v.iter().zip(pre_ids.iter()).all(|(a, b)| a.ident() == *b);
                let appended: Vec<Ident> = v.iter().skip(pre_ids.len()).map(|p| p.ident()).collect();
                self.harness_phase();
                drop(v);
                self.call_phase();
                match x {
                    Ok(n) => (Res::Drained { ret: n, appended, prefix_ok }, no),
                    Err(e) => {
                        if !appended.is_empty() || !prefix_ok {
                            (Res::Drained { ret: usize::MAX, appended, prefix_ok }, no)
                        } else {
                            (Res::RecvErr(re(e)), no)
                        }
                    }
                }
            }
            Op::Iter { h, n } => {
                // Iterator::next needs &mut Receiver: only on an owned sync receiver
                let hh = match self.handles.get_mut(*h as usize).and_then(|x| x.as_deref_mut()) {
                    Some(H::R(rx)) => rx as *mut Receiver<P>,
                    _ => return (Res::Skipped, no),
                };
                if self.borrows[*h as usize] > 0 {
                    return (Res::Skipped, no);
                }
                self.log.borrow_mut().recs[r].via = Some((Side::R, Flavour::Sync));
                let mut vals = Vec::new();
                for _ in 0..*n {
                    match unsafe { (*hh).next() } {
                        Some(v) => vals.push(self.recv_ident(v)),
                        None => break,
                    }
                }
                (Res::IterVals(vals), no)
            }
            Op::ARecv { h, plan } => {
                let rx = receiver!(*h).async_receiver().unwrap();
                let mut fut = Box::pin(rx.recv());
                if plan.never_poll {
                    drop(fut);
                    return (Res::Cancelled, no);
                }
                let out = self.drive(plan, |cx| fut.as_mut().poll(cx));
                match out {
                    None => {
                        drop(fut);
                        (Res::Cancelled, no)
                    }
                    Some(x) => {
                        if plan.repoll_after_ready {
                            let w = Waker::from(self.new_waker());
                            let mut cx = Context::from_waker(&w);
                            let p = catch_unwind(AssertUnwindSafe(|| match fut.as_mut().poll(&mut cx) {
                                Poll::Ready(Ok(v)) => {
                                    let id = v.ident();
                                    drop(v);
                                    format!("returned Ready(Ok({:?}))", id)
                                }
                                Poll::Ready(Err(e)) => format!("returned Ready(Err({:?}))", e),
                                Poll::Pending => "returned Pending".to_string(),
                            }));
                            self.note_repoll(r, p);
                        }
                        drop(fut);
                        match x {
                            Ok(v) => (Res::RecvOk(self.recv_ident(v)), no),
                            Err(e) => (Res::RecvErr(re(e)), no),
                        }
                    }
                }
            }
            Op::StreamOpen { h } => {
                if self.stream.is_some() {
                    return (Res::Skipped, no);
                }
                let rx = receiver!(*h).async_receiver().unwrap();
                let st = Box::pin(rx.stream());
                self.borrows[*h as usize] += 1;
                self.stream = Some((st, *h as usize));
                (Res::Unit, no)
            }
            Op::StreamNext { plan } => {
                let Some((mut st, h)) = self.stream.take() else { return (Res::Skipped, no) };
                self.log.borrow_mut().recs[r].via = Some((Side::R, Flavour::Async));
                let out = self.drive(plan, |cx| st.as_mut().poll_next(cx));
                let res = match out {
                    None => Res::Cancelled,
                    Some(Some(v)) => Res::RecvOk(self.recv_ident(v)),
                    Some(None) => Res::StreamEnd,
                };
                if plan.repoll_after_ready && matches!(res, Res::StreamEnd) {
                    let w = Waker::from(self.new_waker());
                    let mut cx = Context::from_waker(&w);
                    let p = catch_unwind(AssertUnwindSafe(|| match st.as_mut().poll_next(&mut cx) {
                        Poll::Ready(None) => "returned Ready(None)".to_string(),
                        Poll::Ready(Some(v)) => {
                            let id = v.ident();
                            drop(v);
                            format!("returned Ready(Some({:?}))", id)
                        }
                        Poll::Pending => "returned Pending".to_string(),
                    }));
                    self.note_repoll(r, p);
                }
                self.stream = Some((st, h));
                (res, no)
            }
            Op::StreamDrop => {
                let Some((st, h)) = self.stream.take() else { return (Res::Skipped, no) };
                drop(st);
                self.borrows[h] -= 1;
                (Res::Unit, no)
            }
            Op::FutSend { h, id } => {
                let s = sender!(*h).async_sender().unwrap();
                let fut: Pin<Box<SendFuture<'static, P>>> = Box::pin(s.send(P::make(*id)));
                self.borrows[*h as usize] += 1;
                let w = SimWaker::new(self.tid);
                self.futs.push(Some(FutState { fut: FutSlot::Send(fut, *h as usize), waker: w }));
                (Res::Unit, no)
            }
            Op::FutRecv { h } => {
                let rx = receiver!(*h).async_receiver().unwrap();
                let fut: Pin<Box<ReceiveFuture<'static, P>>> = Box::pin(rx.recv());
                self.borrows[*h as usize] += 1;
                let w = SimWaker::new(self.tid);
                self.futs.push(Some(FutState { fut: FutSlot::Recv(fut, *h as usize), waker: w }));
                (Res::Unit, no)
            }
            Op::FutPoll { f, new_waker } => {
                let tid = self.tid;
                let Some(Some(fs)) = self.futs.get_mut(*f as usize) else { return (Res::Skipped, no) };
                if *new_waker {
                    fs.waker = SimWaker::new(tid);
                }
                let w = Waker::from(fs.waker.clone());
                let mut cx = Context::from_waker(&w);
                self.polls += 1;
                let out = catch_unwind(AssertUnwindSafe(|| match &mut fs.fut {
                    FutSlot::Send(fut, _) => match fut.as_mut().poll(&mut cx) {
                        Poll::Pending => Res::Pending,
                        Poll::Ready(Ok(())) => Res::SendOk,
                        Poll::Ready(Err(e)) => Res::SendErr(se(e)),
                    },
                    FutSlot::Recv(fut, _) => match fut.as_mut().poll(&mut cx) {
                        Poll::Pending => Res::Pending,
                        Poll::Ready(Ok(v)) => {
                            let id = v.ident();
                            rt::set_ctx(rt::exec::ctx_of(tid) | PH_HARNESS);
                            drop(v);
                            Res::RecvOk(id)
                        }
                        Poll::Ready(Err(e)) => Res::RecvErr(re(e)),
                    },
                }));
                match out {
                    Ok(x) => (x, no),
                    Err(_) => (Res::Panicked(rt::exec::LAST_PANIC.with(|p| p.borrow().clone())), no),
                }
            }
            // driven by run_join from the task loop; anywhere else it does nothing
            Op::FutJoin { .. } => (Res::Skipped, no),
            Op::FutDrop { f } => {
                let Some(slot) = self.futs.get_mut(*f as usize) else { return (Res::Skipped, no) };
                let Some(fs) = slot.take() else { return (Res::Skipped, no) };
                let h = match &fs.fut {
                    FutSlot::Send(_, h) | FutSlot::Recv(_, h) => *h,
                };
                drop(fs);
                self.borrows[h] -= 1;
                (Res::Unit, no)
            }
            Op::Clone { h, kind } => {
                let Some(x) = self.handle_static(*h) else { return (Res::Skipped, no) };
                self.set_via(r, x);
                let n: H<P> = match (x, kind) {
                    (H::S(s), CloneKind::Same | CloneKind::Sync) => H::S(s.clone()),
                    (H::S(s), CloneKind::Async) => H::AS(s.clone_async()),
                    (H::AS(s), CloneKind::Same | CloneKind::Async) => H::AS(s.clone()),
                    (H::AS(s), CloneKind::Sync) => H::S(s.clone_sync()),
                    (H::R(s), CloneKind::Same | CloneKind::Sync) => H::R(s.clone()),
                    (H::R(s), CloneKind::Async) => H::AR(s.clone_async()),
                    (H::AR(s), CloneKind::Same | CloneKind::Async) => H::AR(s.clone()),
                    (H::AR(s), CloneKind::Sync) => H::R(s.clone_sync()),
                };
                self.handles.push(Some(Box::new(n)));
                self.borrows.push(0);
                (Res::Unit, no)
            }
            Op::Convert { h } => {
                let i = *h as usize;
                if i >= self.handles.len() || self.handles[i].is_none() || self.borrows[i] > 0 {
                    return (Res::Skipped, no);
                }
                let b = self.handles[i].take().unwrap();
                self.log.borrow_mut().recs[r].via = Some((b.side(), b.flavour()));
                let n = match *b {
                    H::S(s) => H::AS(s.to_async()),
                    H::AS(s) => H::S(s.to_sync()),
                    H::R(s) => H::AR(s.to_async()),
                    H::AR(s) => H::R(s.to_sync()),
                };
                self.handles[i] = Some(Box::new(n));
                (Res::Unit, no)
            }
            Op::DropHandle { h } => {
                let i = *h as usize;
                if i >= self.handles.len() || self.handles[i].is_none() || self.borrows[i] > 0 {
                    return (Res::Skipped, no);
                }
                let b = self.handles[i].take().unwrap();
                self.log.borrow_mut().recs[r].via = Some((b.side(), b.flavour()));
                drop(b);
                (Res::Unit, no)
            }
            Op::Close { h } => {
                let Some(x) = self.handle_static(*h) else { return (Res::Skipped, no) };
                self.set_via(r, x);
                match on_any!(x, s => s.close()) {
                    Ok(()) => (Res::CloseOk, no),
                    Err(_) => (Res::CloseErr, no),
                }
            }
            Op::Observe { h, what } => {
                let Some(x) = self.handle_static(*h) else { return (Res::Skipped, no) };
                self.set_via(r, x);
                let v: u64 = match what {
                    Obs::Len => on_any!(x, s => s.len() as u64),
                    Obs::IsEmpty => on_any!(x, s => s.is_empty() as u64),
                    Obs::IsFull => on_any!(x, s => s.is_full() as u64),
                    Obs::Capacity => on_any!(x, s => s.capacity() as u64),
                    Obs::IsBounded => on_any!(x, s => s.is_bounded() as u64),
                    Obs::SenderCount => on_any!(x, s => s.sender_count() as u64),
                    Obs::ReceiverCount => on_any!(x, s => s.receiver_count() as u64),
                    Obs::IsClosed => on_any!(x, s => s.is_closed() as u64),
                    Obs::IsDisconnected => on_any!(x, s => s.is_disconnected() as u64),
                    Obs::IsTerminated => match x {
                        H::R(s) => s.is_terminated() as u64,
                        H::AR(s) => s.is_terminated() as u64,
                        _ => return (Res::Skipped, no),
                    },
                };
                (Res::Obs(v), no)
            }
            Op::RecvAll { .. } | Op::MLock { .. } | Op::MTryLock { .. } => (Res::Skipped, no),
            Op::Yield => {
                rt::yield_now();
                (Res::Unit, no)
            }
            Op::AdvanceClock { us } => {
                rt::advance_clock(*us as u64 * 1000);
                (Res::Unit, no)
            }
        }
    }

    fn opt_after(&mut self, o: Option<P>) -> OptAfter {
        match o {
            None => OptAfter::Taken,
            Some(v) => {
                let id = v.ident();
                self.harness_phase();
                drop(v);
                self.call_phase();
                OptAfter::Back(id)
            }
        }
    }

    fn note_repoll(&mut self, r: usize, p: Result<String, Box<dyn std::any::Any + Send>>) {
        let s = match p {
            Ok(s) => s,
            Err(_) => format!("panicked: {}", rt::exec::LAST_PANIC.with(|p| p.borrow().clone())),
        };
        self.log.borrow_mut().recs[r].repoll = Some(s);
    }

    /// implicit end-of-task clean-up, recorded as ordinary ops
    /// `Op::FutJoin`: one executor for all live futures of this task. Every poll is a `FutPoll` record, every
    /// park phase a `FutJoin` record. Drawn values: 0 always means "no fault / first choice" (shrinker convention).
    fn run_join(&mut self, idx: usize, op: &Op) {
        let Op::FutJoin { shared_waker, p_spurious, p_new_waker } = op else { return };
        let (shared, p_spur, p_new) = (*shared_waker, *p_spurious as u64, *p_new_waker as u64);
        let tid = self.tid;
        let n = self.futs.len();
        let mut done: Vec<bool> = self.futs.iter().map(|f| f.is_none()).collect();
        let mut polled = vec![false; n];
        let mut shared_w = SimWaker::new(tid);
        if shared {
            for f in self.futs.iter_mut().flatten() {
                f.waker = shared_w.clone();
            }
        }
        let fault = |p: u64| p > 0 && rt::draw(100) >= 100 - p;
        loop {
            if done.iter().all(|d| *d) {
                break;
            }
            let mut todo: Vec<usize> = Vec::new();
            if shared {
                let renew = polled.iter().any(|x| *x) && fault(p_new);
                let woken = shared_w.flag.swap(false, O::Relaxed);
                if renew {
                    // the task's waker changed: the executor now listens to the new one only, and every
                    // pending future is polled with it
                    shared_w = SimWaker::new(tid);
                    for (f, slot) in self.futs.iter_mut().enumerate() {
                        if let (Some(fs), false) = (slot.as_mut(), done[f]) {
                            fs.waker = shared_w.clone();
                        }
                    }
                    self.log.borrow_mut().counters[1] += 1;
                }
                for f in 0..n {
                    if !done[f] && (!polled[f] || woken || renew || fault(p_spur)) {
                        todo.push(f);
                    }
                }
            } else {
                for f in 0..n {
                    if done[f] {
                        continue;
                    }
                    let woken = self.futs[f].as_ref().unwrap().waker.flag.swap(false, O::Relaxed);
                    if !polled[f] || woken || fault(p_spur) {
                        if polled[f] && !woken {
                            self.log.borrow_mut().counters[0] += 1;
                        }
                        todo.push(f);
                    }
                }
            }
            if todo.is_empty() {
                let r = self.begin(idx, op);
                loop {
                    let any = if shared {
                        shared_w.flag.load(O::Relaxed)
                    } else {
                        (0..n).any(|f| !done[f] && self.futs[f].as_ref().unwrap().waker.flag.load(O::Relaxed))
                    };
                    if any {
                        break;
                    }
                    rt::park();
                }
                self.end(r, Res::Unit, OptAfter::NotOption);
                continue;
            }
            // poll order: a drawn rotation (0 = in creation order)
            let k = if todo.len() > 1 { rt::draw(todo.len() as u64) as usize } else { 0 };
            todo.rotate_left(k);
            for f in todo {
                let new_waker = !shared && polled[f] && fault(p_new);
                if new_waker {
                    self.log.borrow_mut().counters[1] += 1;
                }
                self.run_op(idx, &Op::FutPoll { f: f as u8, new_waker });
                polled[f] = true;
                let res = self.log.borrow().recs[self.cur].res.clone();
                if res != Res::Pending {
                    done[f] = true;
                }
            }
        }
    }

    fn finish(&mut self, mut idx: usize) {
        if self.stream.is_some() {
            self.run_op(idx, &Op::StreamDrop);
            idx += 1;
        }
        for f in 0..self.futs.len() {
            if self.futs[f].is_some() {
                self.run_op(idx, &Op::FutDrop { f: f as u8 });
                idx += 1;
            }
        }
        for h in 0..self.handles.len() {
            if self.handles[h].is_some() {
                self.run_op(idx, &Op::DropHandle { h: h as u8 });
                idx += 1;
            }
        }
    }
}

fn wait_flag(w: &Arc<SimWaker>) {
    while !w.flag.load(O::Relaxed) {
        rt::park();
    }
}

fn derive<P: Payload>(root: &H<P>, spec: &HandleSpec) -> H<P> {
    match (root, spec.flavour, spec.derive) {
        (H::S(s), Flavour::Sync, _) => H::S(s.clone()),
        (H::S(s), Flavour::Async, Derive::CloneAs) => H::AS(s.clone_async()),
        (H::S(s), Flavour::Async, Derive::CloneThenConvert) => H::AS(s.clone().to_async()),
        (H::AS(s), Flavour::Async, _) => H::AS(s.clone()),
        (H::AS(s), Flavour::Sync, Derive::CloneAs) => H::S(s.clone_sync()),
        (H::AS(s), Flavour::Sync, Derive::CloneThenConvert) => H::S(s.clone().to_sync()),
        (H::R(s), Flavour::Sync, _) => H::R(s.clone()),
        (H::R(s), Flavour::Async, Derive::CloneAs) => H::AR(s.clone_async()),
        (H::R(s), Flavour::Async, Derive::CloneThenConvert) => H::AR(s.clone().to_async()),
        (H::AR(s), Flavour::Async, _) => H::AR(s.clone()),
        (H::AR(s), Flavour::Sync, Derive::CloneAs) => H::R(s.clone_sync()),
        (H::AR(s), Flavour::Sync, Derive::CloneThenConvert) => H::R(s.clone().to_sync()),
    }
}

/// The body of the simulated execution's main task.
pub fn run_case<P: Payload>(case: Rc<Case>, log: Log) {
    payload::reset(case.mask);
    if case.lock_harness {
        return crate::lockh::run_lock_case(case, log);
    }
    let n_tasks = case.tasks.len() + 1;
    {
        let mut l = log.borrow_mut();
        l.inflight = (0..n_tasks).map(|_| InFlight::default()).collect();
    }
    let (rs, rr): (H<P>, H<P>) = match (case.ctor, case.cap) {
        (Flavour::Sync, Cap::Bounded(n)) => {
            let (s, r) = kanal::bounded::<P>(n as usize);
            (H::S(s), H::R(r))
        }
        (Flavour::Sync, Cap::Unbounded) => {
            let (s, r) = kanal::unbounded::<P>();
            (H::S(s), H::R(r))
        }
        (Flavour::Async, Cap::Bounded(n)) => {
            let (s, r) = kanal::bounded_async::<P>(n as usize);
            (H::AS(s), H::AR(r))
        }
        (Flavour::Async, Cap::Unbounded) => {
            let (s, r) = kanal::unbounded_async::<P>();
            (H::AS(s), H::AR(r))
        }
    };
    let mut main = TaskCtx::<P> {
        tid: 0,
        handles: vec![Some(Box::new(rs)), Some(Box::new(rr))],
        borrows: vec![0, 0],
        futs: Vec::new(),
        stream: None,
        log: log.clone(),
        cur: 0,
        polls: 0,
    };
    // derive every task's initial handles (recorded as ops of main)
    let mut idx = 0usize;
    let mut per_task: Vec<Vec<Option<Box<H<P>>>>> = Vec::new();
    for t in case.tasks.iter() {
        let mut hs = Vec::new();
        for spec in t.handles.iter() {
            let root_i = if spec.side == Side::S { 0 } else { 1 };
            let r = main.begin(idx, &Op::Clone { h: root_i, kind: CloneKind::Same });
            idx += 1;
            let root = main.handle_static(root_i).unwrap();
            main.set_via(r, root);
            let nh = derive(root, spec);
            main.end(r, Res::Unit, OptAfter::NotOption);
            hs.push(Some(Box::new(nh)));
        }
        per_task.push(hs);
    }
    if !case.main_keeps_roots {
        main.run_op(idx, &Op::DropHandle { h: 0 });
        idx += 1;
        main.run_op(idx, &Op::DropHandle { h: 1 });
        idx += 1;
    }
    let mut tids = Vec::new();
    for (i, hs) in per_task.into_iter().enumerate() {
        let case2 = case.clone();
        let log2 = log.clone();
        let tid = rt::spawn(&format!("t{}", i + 1), move || {
            let n = hs.len();
            let mut ctx = TaskCtx::<P> {
                tid: i + 1,
                handles: hs,
                borrows: vec![0; n],
                futs: Vec::new(),
                stream: None,
                log: log2,
                cur: 0,
                polls: 0,
            };
            let ops = &case2.tasks[i].ops;
            for (k, op) in ops.iter().enumerate() {
                if let Op::RecvAll { h, max } = op {
                    let fl = ctx.handle(*h).map(|x| x.flavour());
                    for _ in 0..*max {
                        let op2 = match fl {
                            Some(Flavour::Sync) => Op::Recv { h: *h },
                            Some(Flavour::Async) => Op::ARecv { h: *h, plan: PollPlan::default() },
                            None => break,
                        };
                        ctx.run_op(k, &op2);
                        let l = ctx.log.borrow();
                        if !matches!(l.recs[ctx.cur].res, Res::RecvOk(_)) {
                            break;
                        }
                    }
                    continue;
                }
                if let Op::FutJoin { .. } = op {
                    ctx.run_join(k, op);
                    continue;
                }
                ctx.run_op(k, op);
            }
            ctx.finish(ops.len());
        });
        tids.push(tid);
    }
    for t in tids {
        rt::join(t);
    }
    if case.main_keeps_roots {
        for op in case.epilogue.iter() {
            main.run_op(idx, op);
            idx += 1;
        }
    }
    main.finish(idx);
}
