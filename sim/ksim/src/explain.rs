//! O-explain: "could an atomic channel have produced this?"
//!
//! Given the per-task sequences of (operation, observed result), search the
//! interleavings of atomic model steps that respect each task's program order: an
//! operation the model completes at once must yield the observed result; a
//! blocking operation the model cannot complete registers (one atomic step) and is
//! completed later by another task's step (second atomic step) with the observed
//! result; timed operations may give up (Timeout) at any time; cancelled futures
//! unregister; `*_realtime` calls may answer "not done" when another task's
//! operation overlapped them. The oracle is searched exhaustively (memoised DFS);
//! the system's schedules are sampled.

use crate::case::*;
use crate::interp::{Rec, Res, E};
use crate::model::*;
use crate::oracle::{RunData, Violation};
use crate::payload::Ident;
use crate::util::hash_of;
use std::collections::HashSet;

#[derive(Clone, Hash, PartialEq, Eq)]
struct St {
    m: M,
    pc: Vec<u16>,
    wait: Vec<Option<Wid>>,
    /// per task: values its `Iter` op has obtained so far
    sub: Vec<u16>,
}

struct Ctx<'a> {
    tasks: Vec<Vec<&'a Rec>>,
    /// task index of the epilogue (main after the joins): may only run when all others are done
    epilogue: Option<usize>,
    overlap: Vec<Vec<bool>>,
    has_id: bool,
    seen: HashSet<u64>,
    budget: u64,
}

fn send_err(e: SendErr) -> E {
    match e {
        SendErr::Closed => E::Closed,
        SendErr::ReceiveClosed => E::ReceiveClosed,
    }
}

fn is_try_send(op: &Op) -> bool {
    matches!(op, Op::TrySend { .. } | Op::TrySendOpt { .. } | Op::TrySendRt { .. } | Op::TrySendOptRt { .. })
}
fn is_rt(op: &Op) -> bool {
    matches!(op, Op::TrySendRt { .. } | Op::TrySendOptRt { .. } | Op::TryRecvRt { .. })
}
fn is_timed(op: &Op) -> bool {
    matches!(op, Op::SendTimeout { .. } | Op::SendOptTimeout { .. } | Op::RecvTimeout { .. })
}

impl<'a> Ctx<'a> {
    fn ident_ok(&self, got: &Ident, v: u32) -> bool {
        if !self.has_id {
            return *got == Ident::Zst;
        }
        *got == Ident::Id(v)
    }

    /// a peer's step completed waiter `w`: does that agree with what the waiter observed?
    fn complete(&self, st: &mut St, d: Done) -> bool {
        let (w, _) = match d {
            Done::SendOk(w) => (w, 0),
            Done::RecvOk(w, v) => (w, v),
            Done::Released(w) => (w, 0),
        };
        let Some(t) = st.wait.iter().position(|x| *x == Some(w)) else {
            // a waiter the model knows but no task is waiting with: cannot happen
            return false;
        };
        let r = self.tasks[t][st.pc[t] as usize];
        let ok = match (d, &r.res) {
            (_, Res::Cancelled) => true,
            (Done::SendOk(_), Res::SendOk) => true,
            (Done::RecvOk(_, v), Res::RecvOk(id)) => self.ident_ok(id, v),
            (Done::RecvOk(_, v), Res::IterVals(vals)) => {
                // one more element of an iterator op
                let k = st.sub[t] as usize;
                if k < vals.len() && self.ident_ok(&vals[k], v) {
                    st.sub[t] += 1;
                    st.wait[t] = None;
                    // the op goes on (next element or the end) in a later step of its own
                    return true;
                } else {
                    false
                }
            }
            (Done::Released(_), Res::SendErr(E::Closed | E::ReceiveClosed)) => true,
            (Done::Released(_), Res::RecvErr(E::Closed | E::SendClosed)) => true,
            (Done::Released(_), Res::StreamEnd) => true,
            (Done::Released(_), Res::IterVals(vals)) => {
                if st.sub[t] as usize == vals.len() {
                    st.sub[t] = 0;
                    true
                } else {
                    false
                }
            }
            _ => false,
        };
        if ok {
            st.wait[t] = None;
            st.pc[t] += 1;
        }
        ok
    }

    fn apply_done(&self, st: &mut St, done: Vec<Done>) -> bool {
        for d in done {
            if !self.complete(st, d) {
                return false;
            }
        }
        true
    }

    fn successors(&self, st: &St, t: usize) -> Vec<St> {
        let mut out = Vec::new();
        let pc = st.pc[t] as usize;
        if pc >= self.tasks[t].len() {
            return out;
        }
        if let Some(e) = self.epilogue {
            if t == e {
                let others_done = (0..self.tasks.len()).all(|u| u == e || st.pc[u] as usize >= self.tasks[u].len());
                if !others_done {
                    return out;
                }
            }
        }
        let r = self.tasks[t][pc];
        let wid: Wid = ((t as u32) << 16) | pc as u32;
        let adv = |s: &St| {
            let mut n = s.clone();
            n.pc[t] += 1;
            n
        };
        // ---- a registered waiter: only give-up / cancel are its own steps
        if let Some(w) = st.wait[t] {
            let mut n = st.clone();
            match (&r.op, &r.res) {
                (Op::SendTimeout { .. } | Op::SendOptTimeout { .. }, Res::SendErr(E::Timeout)) => {
                    if n.m.cancel_send(w) {
                        n.wait[t] = None;
                        n.pc[t] += 1;
                        out.push(n);
                    }
                }
                (Op::RecvTimeout { .. }, Res::RecvErr(E::Timeout)) => {
                    if n.m.cancel_recv(w) {
                        n.wait[t] = None;
                        n.pc[t] += 1;
                        out.push(n);
                    }
                }
                (Op::ASend { .. }, Res::Cancelled) => {
                    if n.m.cancel_send(w) {
                        n.wait[t] = None;
                        n.pc[t] += 1;
                        out.push(n);
                    }
                }
                (Op::ARecv { .. } | Op::StreamNext { .. }, Res::Cancelled) => {
                    if n.m.cancel_recv(w) {
                        n.wait[t] = None;
                        n.pc[t] += 1;
                        out.push(n);
                    }
                }
                _ => {}
            }
            return out;
        }
        if r.res == Res::Skipped {
            out.push(adv(st));
            return out;
        }
        match &r.op {
            op if op.is_send_like() && !matches!(op, Op::FutSend { .. }) => {
                let id = op.send_id().unwrap();
                if let (Op::ASend { .. }, Res::Cancelled) = (op, &r.res) {
                    // dropped before it had any effect: never polled, or polled without ever entering the wait list
                    // (an implementation may answer Pending and wake itself, e.g. when the internal lock is busy)
                    if r.polls == 0 || r.reg.is_none() {
                        out.push(adv(st));
                        return out;
                    }
                }
                if is_rt(op) && r.res == Res::SendRefused && self.overlap[t][pc] {
                    out.push(adv(st));
                }
                let mut n = st.clone();
                match n.m.send(id) {
                    SendStep::Ok(done) => {
                        if r.res == Res::SendOk {
                            n.pc[t] += 1;
                            if self.apply_done(&mut n, done) {
                                out.push(n);
                            }
                        }
                    }
                    SendStep::Err(e) => {
                        if r.res == Res::SendErr(send_err(e)) {
                            n.pc[t] += 1;
                            out.push(n);
                        }
                    }
                    SendStep::WouldWait => {
                        if is_try_send(op) {
                            if r.res == Res::SendRefused {
                                n.pc[t] += 1;
                                out.push(n);
                            }
                        } else {
                            let plausible = match &r.res {
                                Res::SendOk | Res::SendErr(E::Closed) | Res::SendErr(E::ReceiveClosed) => true,
                                Res::SendErr(E::Timeout) => is_timed(op),
                                Res::Cancelled => matches!(op, Op::ASend { .. }),
                                _ => false,
                            };
                            if plausible {
                                n.m.register_send(wid, id);
                                n.wait[t] = Some(wid);
                                out.push(n);
                            }
                        }
                    }
                }
            }
            Op::Recv { .. } | Op::RecvTimeout { .. } | Op::TryRecv { .. } | Op::TryRecvRt { .. } | Op::ARecv { .. } | Op::StreamNext { .. } => {
                if let (Op::ARecv { .. }, Res::Cancelled) = (&r.op, &r.res) {
                    if r.polls == 0 || r.reg.is_none() {
                        out.push(adv(st));
                        return out;
                    }
                }
                if is_rt(&r.op) && r.res == Res::RecvNone && self.overlap[t][pc] {
                    out.push(adv(st));
                }
                let tryk = matches!(r.op, Op::TryRecv { .. } | Op::TryRecvRt { .. });
                let mut n = st.clone();
                // a timed receive whose deadline has passed reports Timeout before looking at the senders
                if let (Op::RecvTimeout { .. }, Res::RecvErr(E::Timeout)) = (&r.op, &r.res) {
                    if n.m.rc != 0 && n.m.queue.is_empty() && n.m.sw.is_empty() && n.m.sc == 0 {
                        out.push(adv(st));
                        return out;
                    }
                }
                match n.m.recv() {
                    RecvStep::Ok(v, done) => {
                        if let Res::RecvOk(id) = &r.res {
                            if self.ident_ok(id, v) {
                                n.pc[t] += 1;
                                if self.apply_done(&mut n, done) {
                                    out.push(n);
                                }
                            }
                        }
                    }
                    RecvStep::Err(e) => {
                        let want = match e {
                            RecvErr::Closed => E::Closed,
                            RecvErr::SendClosed => E::SendClosed,
                        };
                        let ok = r.res == Res::RecvErr(want) || (matches!(r.op, Op::StreamNext { .. }) && r.res == Res::StreamEnd);
                        if ok {
                            n.pc[t] += 1;
                            out.push(n);
                        }
                    }
                    RecvStep::WouldWait => {
                        if tryk {
                            if r.res == Res::RecvNone {
                                n.pc[t] += 1;
                                out.push(n);
                            }
                        } else {
                            let plausible = match &r.res {
                                Res::RecvOk(_) | Res::RecvErr(E::Closed) | Res::RecvErr(E::SendClosed) | Res::StreamEnd => true,
                                Res::RecvErr(E::Timeout) => is_timed(&r.op),
                                Res::Cancelled => matches!(r.op, Op::ARecv { .. } | Op::StreamNext { .. }),
                                _ => false,
                            };
                            if plausible {
                                n.m.register_recv(wid);
                                n.wait[t] = Some(wid);
                                out.push(n);
                            }
                        }
                    }
                }
            }
            Op::Iter { .. } => {
                let Res::IterVals(vals) = &r.res else { return out };
                let k = st.sub[t] as usize;
                let mut n = st.clone();
                match n.m.recv() {
                    RecvStep::Ok(v, done) => {
                        if k < vals.len() && self.ident_ok(&vals[k], v) {
                            n.sub[t] += 1;
                            if self.apply_done(&mut n, done) {
                                out.push(n);
                            }
                        }
                    }
                    RecvStep::Err(_) => {
                        // the iterator ends at the first error
                        if k == vals.len() {
                            n.sub[t] = 0;
                            n.pc[t] += 1;
                            out.push(n);
                        }
                    }
                    RecvStep::WouldWait => {
                        n.m.register_recv(wid);
                        n.wait[t] = Some(wid);
                        out.push(n);
                    }
                }
                // the iterator also ends once it has produced the requested number of values
                if let Op::Iter { n: want, .. } = &r.op {
                    if k == vals.len() && k == *want as usize {
                        let mut n2 = st.clone();
                        n2.sub[t] = 0;
                        n2.pc[t] += 1;
                        out.push(n2);
                    }
                }
            }
            Op::Drain { .. } => {
                let mut n = st.clone();
                match n.m.drain() {
                    Ok((vals, done)) => {
                        if let Res::Drained { ret, appended, prefix_ok } = &r.res {
                            if *prefix_ok && *ret == vals.len() && appended.len() == vals.len() && appended.iter().zip(vals.iter()).all(|(a, b)| self.ident_ok(a, *b)) {
                                n.pc[t] += 1;
                                if self.apply_done(&mut n, done) {
                                    out.push(n);
                                }
                            }
                        }
                    }
                    Err(_) => {
                        if r.res == Res::RecvErr(E::Closed) {
                            n.pc[t] += 1;
                            out.push(n);
                        }
                    }
                }
            }
            Op::Close { .. } => {
                let mut n = st.clone();
                match n.m.close() {
                    Ok((done, _)) => {
                        if r.res == Res::CloseOk {
                            n.pc[t] += 1;
                            if self.apply_done(&mut n, done) {
                                out.push(n);
                            }
                        }
                    }
                    Err(()) => {
                        if r.res == Res::CloseErr {
                            n.pc[t] += 1;
                            out.push(n);
                        }
                    }
                }
            }
            Op::Clone { .. } => {
                let mut n = st.clone();
                match r.via.map(|v| v.0) {
                    Some(Side::S) => n.m.clone_sender(),
                    Some(Side::R) => n.m.clone_receiver(),
                    None => {}
                }
                n.pc[t] += 1;
                out.push(n);
            }
            Op::DropHandle { .. } => {
                let mut n = st.clone();
                let done = match r.via.map(|v| v.0) {
                    Some(Side::S) => n.m.drop_sender(),
                    Some(Side::R) => n.m.drop_receiver(),
                    None => vec![],
                };
                n.pc[t] += 1;
                if self.apply_done(&mut n, done) {
                    out.push(n);
                }
            }
            Op::Observe { what, .. } => {
                let m = &st.m;
                let v = match what {
                    Obs::Len => m.len(),
                    Obs::IsEmpty => m.is_empty() as u64,
                    Obs::IsFull => m.is_full() as u64,
                    Obs::Capacity => m.capacity(),
                    Obs::IsBounded => m.is_bounded() as u64,
                    Obs::SenderCount => m.sc as u64,
                    Obs::ReceiverCount => m.rc as u64,
                    Obs::IsClosed => m.closed() as u64,
                    Obs::IsDisconnected => match r.via.map(|v| v.0) {
                        Some(Side::S) => (m.rc == 0) as u64,
                        _ => (m.sc == 0) as u64,
                    },
                    Obs::IsTerminated => m.is_terminated() as u64,
                };
                // once the last receiver is gone nobody can obtain the buffered values any more; whether the channel
                // destroys them at that moment or keeps them until the last handle goes is not fixed by any property
                let alt = if m.rc == 0 && m.sc > 0 {
                    match what {
                        Obs::Len => Some(0),
                        Obs::IsEmpty => Some(1),
                        Obs::IsFull => Some((m.cap == 0) as u64),
                        _ => None,
                    }
                } else {
                    None
                };
                if r.res == Res::Obs(v) || alt.map_or(false, |x| r.res == Res::Obs(x)) {
                    out.push(adv(st));
                }
            }
            _ => {
                // Convert, Yield, AdvanceClock, StreamOpen, StreamDrop, SendNone (panics before touching the channel), ...
                out.push(adv(st));
            }
        }
        out
    }

    fn dfs(&mut self, st: St) -> bool {
        if (0..self.tasks.len()).all(|t| st.pc[t] as usize >= self.tasks[t].len()) {
            return true;
        }
        if self.budget == 0 {
            // give up: treat as explained (never a false alarm); counted by the caller
            return true;
        }
        self.budget -= 1;
        let h = hash_of(&st);
        if !self.seen.insert(h) {
            return false;
        }
        for t in 0..self.tasks.len() {
            for n in self.successors(&st, t) {
                if self.dfs(n) {
                    return true;
                }
            }
        }
        false
    }
}

/// Supported operation alphabet (explicit future slots and abandoned stream waits are not modelled here)
pub fn supported(d: &RunData) -> bool {
    !d.recs.iter().any(|r| {
        matches!(r.op, Op::FutSend { .. } | Op::FutRecv { .. } | Op::FutPoll { .. } | Op::FutDrop { .. })
            || (matches!(r.op, Op::StreamNext { .. }) && r.res == Res::Cancelled)
    })
}

thread_local! {
    /// (histories searched, model states visited, searches that hit the budget, histories outside the supported alphabet)
    pub static EXPLAIN_TOTALS: std::cell::Cell<(u64, u64, u64, u64)> = const { std::cell::Cell::new((0, 0, 0, 0)) };
}

pub struct ExplainStats {
    pub states: u64,
    pub gave_up: bool,
}

pub fn o_explain(d: &RunData) -> (Vec<Violation>, ExplainStats) {
    let mut stats = ExplainStats { states: 0, gave_up: false };
    if d.outcome.abort.is_some() {
        return (vec![], stats);
    }
    if !supported(d) {
        EXPLAIN_TOTALS.with(|t| {
            let (a, b, c, e) = t.get();
            t.set((a, b, c, e + 1));
        });
        return (vec![], stats);
    }
    let ntasks = d.case.tasks.len() + 1;
    // main's records: those before the first spawned task's first record are the prologue, the rest the epilogue
    let first_other = d.recs.iter().position(|r| r.task != 0).unwrap_or(d.recs.len());
    let mut m = M::new(d.case.cap.n());
    for r in d.recs[..first_other].iter() {
        match (&r.op, r.via.map(|v| v.0)) {
            (Op::Clone { .. }, Some(Side::S)) => m.clone_sender(),
            (Op::Clone { .. }, Some(Side::R)) => m.clone_receiver(),
            (Op::DropHandle { .. }, Some(Side::S)) => {
                m.drop_sender();
            }
            (Op::DropHandle { .. }, Some(Side::R)) => {
                m.drop_receiver();
            }
            _ => {}
        }
    }
    let mut tasks: Vec<Vec<&Rec>> = vec![Vec::new(); ntasks];
    for (i, r) in d.recs.iter().enumerate() {
        if r.task == 0 && i < first_other {
            continue;
        }
        tasks[r.task as usize].push(r);
    }
    // overlap: did an operation of another task overlap this one in time?
    let mut overlap: Vec<Vec<bool>> = Vec::new();
    for t in 0..ntasks {
        let mut v = Vec::new();
        for r in tasks[t].iter() {
            let o = d.recs.iter().any(|x| x.task != r.task && x.inv < r.ret && x.ret > r.inv);
            v.push(o);
        }
        overlap.push(v);
    }
    let mut cx = Ctx { tasks, epilogue: Some(0), overlap, has_id: d.case.class.has_id(), seen: HashSet::new(), budget: 200_000 };
    let st = St { m, pc: vec![0; ntasks], wait: vec![None; ntasks], sub: vec![0; ntasks] };
    let ok = cx.dfs(st);
    stats.states = cx.seen.len() as u64;
    stats.gave_up = cx.budget == 0;
    EXPLAIN_TOTALS.with(|t| {
        let (a, b, c, e) = t.get();
        t.set((a + 1, b + stats.states, c + stats.gave_up as u64, e));
    });
    if ok {
        return (vec![], stats);
    }
    let mut kinds: Vec<&str> = d.recs.iter().filter(|r| r.task != 0).map(|r| r.op.kind()).collect();
    kinds.sort();
    kinds.dedup();
    let hist: Vec<String> = d.recs.iter().filter(|r| r.task != 0).map(|r| format!("t{}:{:?}->{:?}", r.task, r.op, r.res)).collect();
    (
        vec![Violation {
            sig: format!("explain/none@{}", kinds.join("+")),
            detail: format!("no interleaving of atomic channel steps produces these results: {}", hist.join("; ")),
        }],
        stats,
    )
}
