use std::hash::Hasher;

#[derive(Clone, Copy)]
pub struct Fnv(pub u64);
impl Default for Fnv {
    fn default() -> Self {
        Fnv(0xcbf29ce484222325)
    }
}
impl Hasher for Fnv {
    fn finish(&self) -> u64 {
        self.0
    }
    fn write(&mut self, b: &[u8]) {
        for &x in b {
            self.0 = (self.0 ^ x as u64).wrapping_mul(0x100000001b3);
        }
    }
}

pub fn hash_of<T: std::hash::Hash>(t: &T) -> u64 {
    let mut h = Fnv::default();
    t.hash(&mut h);
    h.finish()
}

/// generator-side PRNG (SplitMix64), separate from the in-run decision stream:
/// the case is generated completely before the run starts.
#[derive(Clone)]
pub struct Rng(pub kanal_verif_rt::exec::SplitMix);
impl Rng {
    pub fn new(seed: u64) -> Rng {
        Rng(kanal_verif_rt::exec::SplitMix(seed))
    }
    pub fn below(&mut self, n: u64) -> u64 {
        self.0.below(n)
    }
    pub fn range(&mut self, lo: u64, hi: u64) -> u64 {
        lo + self.0.below(hi - lo + 1)
    }
    pub fn chance(&mut self, num: u64, den: u64) -> bool {
        self.0.below(den) < num
    }
    pub fn pick<'a, T>(&mut self, xs: &'a [T]) -> &'a T {
        &xs[self.0.below(xs.len() as u64) as usize]
    }
    /// weighted choice: returns the index
    pub fn weighted(&mut self, w: &[u32]) -> usize {
        let tot: u64 = w.iter().map(|x| *x as u64).sum();
        let mut r = self.0.below(tot.max(1));
        for (i, x) in w.iter().enumerate() {
            if r < *x as u64 {
                return i;
            }
            r -= *x as u64;
        }
        w.len() - 1
    }
    pub fn next(&mut self) -> u64 {
        self.0.next()
    }
}
