//! Case generators: one parameterised generator, one profile per property.
//! A case is generated completely from the run seed before the run starts.

use crate::case::*;
use crate::payload::{Class, ALL_CLASSES};
use crate::util::Rng;

#[derive(Clone)]
pub struct Profile {
    pub senders: (u8, u8),
    pub receivers: (u8, u8),
    /// tasks holding both sides (only non-blocking / bounded-wait ops)
    pub both: (u8, u8),
    pub ops: (u8, u8),
    pub caps: Vec<(Cap, u32)>,
    pub classes: Vec<Class>,
    /// Send, SendTimeout, SendOptTimeout, TrySend, TrySendOpt, TrySendRt, TrySendOptRt, ASend
    pub send_w: [u32; 8],
    /// Recv, RecvTimeout, TryRecv, TryRecvRt, Drain, ARecv, StreamNext, Iter
    pub recv_w: [u32; 8],
    /// percent of handles that are of the async flavour
    pub p_async_handle: u32,
    /// force each channel to have both flavours on it
    pub mixed_flavours: bool,
    pub p_spurious: u32,
    pub p_new_waker: u32,
    pub p_cancel: u32,
    pub p_never_poll: u32,
    pub p_repoll: u32,
    /// percent chance per task to get a close() somewhere
    pub p_close: u32,
    /// percent chance per op slot to insert a clone / drop-handle / convert
    pub p_handle_ops: u32,
    /// percent chance per op slot to insert an observer
    pub p_observe: u32,
    pub p_yield: u32,
    pub p_advance: u32,
    /// receivers end with "receive until error"
    pub p_recv_all: u32,
    pub timeouts: Vec<u32>,
    pub faults: bool,
    pub monitors: bool,
    /// percent of runs with the happens-before / lifetime monitors on (they end a run at their first report)
    pub p_monitors: u32,
    /// probability (percent) that spin budgets are left as written
    pub p_full_spin: u32,
    pub min_tasks: u8,
    /// percent of observers that read the handle counts
    pub p_obs_counts: u32,
    /// add a quiescent epilogue (main keeps its roots) when every task has bounded waits only
    pub epilogue: bool,
    /// percent of runs that use the bulk variant (long producer, large / unbounded buffer)
    pub p_bulk: u32,
}

impl Default for Profile {
    fn default() -> Self {
        Profile {
            senders: (1, 2),
            receivers: (1, 2),
            both: (0, 0),
            ops: (1, 5),
            caps: vec![
                (Cap::Bounded(0), 30),
                (Cap::Bounded(1), 25),
                (Cap::Bounded(2), 15),
                (Cap::Bounded(3), 8),
                (Cap::Bounded(8), 2),
                (Cap::Unbounded, 10),
            ],
            classes: ALL_CLASSES.to_vec(),
            send_w: [30, 10, 10, 8, 6, 4, 4, 28],
            recv_w: [30, 12, 8, 4, 6, 26, 10, 4],
            p_async_handle: 50,
            mixed_flavours: false,
            p_spurious: 15,
            p_new_waker: 15,
            p_cancel: 8,
            p_never_poll: 2,
            p_repoll: 0,
            p_close: 0,
            p_handle_ops: 0,
            p_observe: 0,
            p_yield: 5,
            p_advance: 2,
            p_recv_all: 50,
            timeouts: vec![0, 5, 20, 100, 0, 5, 20, 100, 0, 5, 20, 100, u32::MAX],
            faults: true,
            monitors: false,
            p_monitors: 0,
            p_full_spin: 5,
            min_tasks: 2,
            p_obs_counts: 20,
            epilogue: false,
            p_bulk: 4,
        }
    }
}

pub fn gen_knobs(rng: &mut Rng, p: &Profile) -> Knobs {
    let mut k = Knobs::default();
    k.monitors = p.monitors || rng.below(100) < p.p_monitors as u64;
    k.policy = match rng.below(100) {
        0..=39 => PolicyS::Uniform,
        40..=74 => PolicyS::Sticky(*rng.pick(&[4, 6, 7])),
        _ => PolicyS::Pct(rng.range(1, 3) as u8),
    };
    for s in 0..3 {
        k.spin[s] = if rng.below(100) < p.p_full_spin as u64 { u16::MAX } else { *rng.pick(&[0u16, 0, 1, 1, 3, 8]) };
    }
    k.parallelism = *rng.pick(&[1u8, 4]);
    k.time = match rng.below(100) {
        0..=49 => TimeS::Tick,
        50..=79 => TimeS::Coarse,
        _ => TimeS::Jumpy(*rng.pick(&[20u32, 200])),
    };
    if p.faults {
        if rng.chance(1, 2) {
            k.p_stall = *rng.pick(&[5u16, 20, 60]);
            k.stall_max = *rng.pick(&[10u32, 50, 300]);
        }
        if rng.chance(1, 3) {
            k.p_cs_freeze = *rng.pick(&[30u16, 100, 300]);
            if k.stall_max == 0 {
                k.stall_max = *rng.pick(&[10u32, 50, 300]);
            }
        }
        if rng.chance(1, 3) {
            k.p_spurious_park = *rng.pick(&[10u16, 40, 120]);
        }
    }
    k
}

pub fn gen_plan(rng: &mut Rng, p: &Profile) -> PollPlan {
    let mut plan = PollPlan::default();
    if rng.below(100) < p.p_never_poll as u64 {
        plan.never_poll = true;
        return plan;
    }
    let n = rng.below(4);
    for _ in 0..n {
        let r = rng.below(100) as u32;
        let act = if r < p.p_cancel {
            if rng.chance(1, 4) {
                PollAct::CancelNow
            } else {
                PollAct::Cancel { steps: *rng.pick(&[0u16, 1, 2, 3, 5, 8, 13, 30, 100]) }
            }
        } else if r < p.p_cancel + p.p_spurious {
            PollAct::Spurious { steps: *rng.pick(&[0u16, 1, 2, 3, 5, 8, 13, 30]), new_waker: rng.below(100) < p.p_new_waker as u64 * 2 }
        } else if r < p.p_cancel + p.p_spurious + p.p_new_waker {
            PollAct::WaitNewWaker
        } else {
            PollAct::Wait
        };
        let stop = matches!(act, PollAct::Cancel { .. } | PollAct::CancelNow);
        plan.acts.push(act);
        if stop {
            break;
        }
    }
    plan.repoll_after_ready = rng.below(100) < p.p_repoll as u64;
    plan
}

/// make a poll plan wait only for a bounded number of decisions: every unbounded wait becomes a bounded one
/// and the plan ends by dropping the future
fn bound_plan(rng: &mut Rng, plan: &mut PollPlan) {
    if plan.never_poll {
        return;
    }
    let mut acts = Vec::new();
    for a in plan.acts.iter().take(2) {
        let b = match a {
            PollAct::Wait => PollAct::Spurious { steps: *rng.pick(&[2u16, 5, 13, 40]), new_waker: false },
            PollAct::WaitNewWaker => PollAct::Spurious { steps: *rng.pick(&[2u16, 5, 13, 40]), new_waker: true },
            x => *x,
        };
        let stop = matches!(b, PollAct::Cancel { .. } | PollAct::CancelNow);
        acts.push(b);
        if stop {
            plan.acts = acts;
            return;
        }
    }
    acts.push(PollAct::Cancel { steps: *rng.pick(&[0u16, 3, 13, 50]) });
    plan.acts = acts;
}

struct IdGen(u32);
impl IdGen {
    fn next(&mut self) -> u32 {
        let i = self.0;
        self.0 += 1;
        i
    }
}

fn gen_send(rng: &mut Rng, p: &Profile, h: u8, ids: &mut IdGen, bounded_wait_only: bool) -> Op {
    let mut w = p.send_w;
    if bounded_wait_only {
        w[0] = 0;
    }
    let mut us = *rng.pick(&p.timeouts);
    if bounded_wait_only && us == u32::MAX {
        us = 100;
    }
    let id = ids.next();
    match rng.weighted(&w) {
        0 => Op::Send { h, id },
        1 => Op::SendTimeout { h, id, us },
        2 => Op::SendOptTimeout { h, id, us },
        3 => Op::TrySend { h, id },
        4 => Op::TrySendOpt { h, id },
        5 => Op::TrySendRt { h, id },
        6 => Op::TrySendOptRt { h, id },
        _ => {
            let mut plan = gen_plan(rng, p);
            if bounded_wait_only {
                bound_plan(rng, &mut plan);
            }
            Op::ASend { h, id, plan }
        }
    }
}

fn gen_recv(rng: &mut Rng, p: &Profile, h: u8, stream_open: &mut bool, bounded_wait_only: bool, out: &mut Vec<Op>) {
    let mut w = p.recv_w;
    if bounded_wait_only {
        w[0] = 0;
        w[7] = 0;
    }
    let mut us = *rng.pick(&p.timeouts);
    if bounded_wait_only && us == u32::MAX {
        us = 100;
    }
    match rng.weighted(&w) {
        0 => out.push(Op::Recv { h }),
        1 => out.push(Op::RecvTimeout { h, us }),
        2 => out.push(Op::TryRecv { h }),
        3 => out.push(Op::TryRecvRt { h }),
        4 => out.push(Op::Drain { h, pre: rng.below(3) as u8, spare: *rng.pick(&[0u8, 0, 1, 4]) }),
        5 => {
            let mut plan = gen_plan(rng, p);
            if bounded_wait_only {
                bound_plan(rng, &mut plan);
            }
            out.push(Op::ARecv { h, plan })
        }
        6 => {
            if !*stream_open {
                out.push(Op::StreamOpen { h });
                *stream_open = true;
            }
            let mut plan = gen_plan(rng, p);
            plan.never_poll = false;
            if bounded_wait_only {
                bound_plan(rng, &mut plan);
            }
            out.push(Op::StreamNext { plan });
            if rng.chance(1, 6) {
                out.push(Op::StreamDrop);
                *stream_open = false;
            }
        }
        _ => out.push(Op::Iter { h, n: rng.range(1, 3) as u8 }),
    }
}

fn gen_observe(rng: &mut Rng, h: u8, side: Side, p_counts: u32) -> Op {
    if rng.below(100) < p_counts as u64 {
        return Op::Observe { h, what: if rng.chance(1, 2) { Obs::SenderCount } else { Obs::ReceiverCount } };
    }
    let all = [
        Obs::Len,
        Obs::IsEmpty,
        Obs::IsFull,
        Obs::Capacity,
        Obs::IsBounded,
        Obs::SenderCount,
        Obs::ReceiverCount,
        Obs::IsClosed,
        Obs::IsDisconnected,
        Obs::IsTerminated,
    ];
    let n = if side == Side::R { 10 } else { 9 };
    Op::Observe { h, what: all[rng.below(n) as usize] }
}

pub fn pick_cap(rng: &mut Rng, p: &Profile) -> Cap {
    let w: Vec<u32> = p.caps.iter().map(|c| c.1).collect();
    p.caps[rng.weighted(&w)].0
}

/// Bulk variant: one producer pushes 35-70 values through a large or unbounded buffer (the unbounded queue
/// starts with room for 32 values and has to grow and wrap), consumers drain it in different ways.
fn gen_bulk(rng: &mut Rng, p: &Profile) -> Case {
    let cap = *rng.pick(&[Cap::Unbounded, Cap::Unbounded, Cap::Bounded(8), Cap::Bounded(33)]);
    let class = *rng.pick(&p.classes);
    let n = rng.range(35, 70) as u32;
    let fl = |rng: &mut Rng| if rng.chance(1, 2) { Flavour::Async } else { Flavour::Sync };
    let mut sops = Vec::new();
    for id in 0..n {
        sops.push(match (cap, rng.below(10)) {
            (Cap::Unbounded, 0..=1) => Op::TrySendRt { h: 0, id },
            (Cap::Unbounded, 2) => Op::TrySendOptRt { h: 0, id },
            (Cap::Unbounded, 3) => Op::TrySendOpt { h: 0, id },
            (Cap::Unbounded, 4..=5) => Op::TrySend { h: 0, id },
            (Cap::Unbounded, 6..=7) => Op::Send { h: 0, id },
            (Cap::Unbounded, _) => Op::ASend { h: 0, id, plan: PollPlan::default() },
            (_, 0..=4) => Op::Send { h: 0, id },
            (_, 5..=6) => Op::SendTimeout { h: 0, id, us: 100 },
            (_, _) => Op::ASend { h: 0, id, plan: PollPlan::default() },
        });
        if rng.chance(1, 12) {
            sops.push(Op::Observe { h: 0, what: *rng.pick(&[Obs::Len, Obs::IsFull, Obs::IsEmpty]) });
        }
    }
    let mut rops = Vec::new();
    for _ in 0..*rng.pick(&[0u32, 0, 3, 30]) {
        rops.push(Op::Yield);
    }
    for _ in 0..rng.range(0, 6) {
        rops.push(match rng.below(5) {
            0 => Op::Drain { h: 0, pre: 0, spare: *rng.pick(&[0u8, 4]) },
            1 => Op::Recv { h: 0 },
            2 => Op::TryRecv { h: 0 },
            3 => Op::Yield,
            _ => Op::ARecv { h: 0, plan: PollPlan::default() },
        });
    }
    rops.push(Op::RecvAll { h: 0, max: 100 });
    let tasks = vec![
        TaskSpec { handles: vec![HandleSpec { side: Side::S, flavour: fl(rng), derive: Derive::CloneAs }], ops: sops },
        TaskSpec { handles: vec![HandleSpec { side: Side::R, flavour: fl(rng), derive: Derive::CloneAs }], ops: rops },
    ];
    Case { cap, ctor: fl(rng), class, mask: rng.next(), knobs: gen_knobs(rng, p), tasks, main_keeps_roots: false, lock_harness: false, epilogue: vec![], balanced: false }
}

/// Crowd variant: five or six tasks of one side wait at the same time (the wait list has to grow beyond its
/// initial room for 4 / 8 waiters), one task of the other side serves them.
fn gen_crowd(rng: &mut Rng, p: &Profile) -> Case {
    let cap = *rng.pick(&[Cap::Bounded(0), Cap::Bounded(0), Cap::Bounded(1), Cap::Bounded(2)]);
    let class = *rng.pick(&p.classes);
    let fl = |rng: &mut Rng| if rng.chance(1, 2) { Flavour::Async } else { Flavour::Sync };
    let crowd_sends = rng.chance(1, 2);
    let n = rng.range(5, 6) as usize;
    let mut tasks = Vec::new();
    let mut id = 0u32;
    let mut total = 0u32;
    for _ in 0..n {
        let k = rng.range(1, 2);
        let mut ops = Vec::new();
        for _ in 0..k {
            if crowd_sends {
                ops.push(match rng.below(4) {
                    0 => Op::ASend { h: 0, id, plan: PollPlan::default() },
                    1 => Op::SendTimeout { h: 0, id, us: *rng.pick(&[100u32, 2_000_000]) },
                    _ => Op::Send { h: 0, id },
                });
                id += 1;
            } else {
                ops.push(match rng.below(4) {
                    0 => Op::ARecv { h: 0, plan: PollPlan::default() },
                    1 => Op::RecvTimeout { h: 0, us: *rng.pick(&[100u32, 2_000_000]) },
                    _ => Op::Recv { h: 0 },
                });
            }
            total += 1;
        }
        let side = if crowd_sends { Side::S } else { Side::R };
        tasks.push(TaskSpec { handles: vec![HandleSpec { side, flavour: fl(rng), derive: Derive::CloneAs }], ops });
    }
    let mut ops = vec![Op::Yield, Op::Yield];
    for _ in 0..total {
        if crowd_sends {
            ops.push(match rng.below(5) {
                0 => Op::TryRecv { h: 0 },
                1 => Op::Drain { h: 0, pre: 0, spare: 0 },
                2 => Op::ARecv { h: 0, plan: PollPlan::default() },
                _ => Op::Recv { h: 0 },
            });
        } else {
            ops.push(match rng.below(4) {
                0 => Op::TrySend { h: 0, id },
                1 => Op::ASend { h: 0, id, plan: PollPlan::default() },
                _ => Op::Send { h: 0, id },
            });
            id += 1;
        }
        if rng.chance(1, 4) {
            ops.push(Op::Yield);
        }
    }
    if crowd_sends {
        ops.push(Op::RecvAll { h: 0, max: 20 });
    }
    let side = if crowd_sends { Side::R } else { Side::S };
    tasks.push(TaskSpec { handles: vec![HandleSpec { side, flavour: fl(rng), derive: Derive::CloneAs }], ops });
    Case { cap, ctor: fl(rng), class, mask: rng.next(), knobs: gen_knobs(rng, p), tasks, main_keeps_roots: false, lock_harness: false, epilogue: vec![], balanced: false }
}

/// G-exec: "balanced executors". 1-3 executor tasks each hold both sides, create all their send and receive
/// futures first and then drive them with ONE executor loop (`FutJoin`, as `join!` or a single-threaded runtime
/// would); optional one-sided tasks (sync or async, sequential) add sends or receives. Over the whole run the
/// number of sends equals the number of receives, nobody closes, cancels or times out, main keeps the root
/// handles: by specification every operation completes with success in every schedule (see DESIGN 4, C16).
pub fn gen_exec_case(rng: &mut Rng, p: &Profile, big: bool) -> Case {
    let cap = *rng.pick(&[Cap::Bounded(0), Cap::Bounded(0), Cap::Bounded(1), Cap::Bounded(1), Cap::Bounded(2), Cap::Bounded(3), Cap::Unbounded]);
    let class = *rng.pick(&p.classes);
    let fl = |rng: &mut Rng| if rng.chance(1, 2) { Flavour::Async } else { Flavour::Sync };
    let dv = |rng: &mut Rng| if rng.chance(1, 2) { Derive::CloneAs } else { Derive::CloneThenConvert };
    let n_exec = if big { *rng.pick(&[1usize, 2, 2, 3, 3, 4]) } else { *rng.pick(&[1usize, 1, 2, 2, 2, 3]) };
    let total = if big { rng.range(2, 10) as usize } else { rng.range(2, 6) as usize };
    // who sends / receives each message: task indices; executors are 0..n_exec, then up to one one-sided sender task
    // and one one-sided receiver task
    let with_sender_task = rng.chance(1, 3);
    let with_receiver_task = rng.chance(1, 3);
    let st = n_exec;
    let rtk = n_exec + with_sender_task as usize;
    let n_tasks = n_exec + with_sender_task as usize + with_receiver_task as usize;
    let mut sends: Vec<Vec<u32>> = vec![Vec::new(); n_tasks];
    let mut recvs: Vec<usize> = vec![0; n_tasks];
    let mut ids = IdGen(0);
    for _ in 0..total {
        let who_s = if with_sender_task && rng.chance(1, 3) { st } else { rng.below(n_exec as u64) as usize };
        let who_r = if with_receiver_task && rng.chance(1, 3) { rtk } else { rng.below(n_exec as u64) as usize };
        sends[who_s].push(ids.next());
        recvs[who_r] += 1;
    }
    let mut tasks = Vec::new();
    for t in 0..n_tasks {
        if t < n_exec {
            let handles = vec![HandleSpec { side: Side::S, flavour: fl(rng), derive: dv(rng) }, HandleSpec { side: Side::R, flavour: fl(rng), derive: dv(rng) }];
            let mut ops: Vec<Op> = sends[t].iter().map(|id| Op::FutSend { h: 0, id: *id }).collect();
            for _ in 0..recvs[t] {
                ops.push(Op::FutRecv { h: 1 });
            }
            // creation order is irrelevant for completion (no future is polled before the join); shuffle it
            for i in (1..ops.len()).rev() {
                let j = rng.below(i as u64 + 1) as usize;
                ops.swap(i, j);
            }
            if rng.below(100) < p.p_yield as u64 {
                ops.push(Op::Yield);
            }
            ops.push(Op::FutJoin {
                shared_waker: rng.chance(1, 2),
                p_spurious: *rng.pick(&[0u8, 0, 10, 30, 60]),
                p_new_waker: *rng.pick(&[0u8, 0, 10, 30, 60]),
            });
            tasks.push(TaskSpec { handles, ops });
        } else if t == st && with_sender_task {
            let f = fl(rng);
            let ops = sends[t].iter().map(|id| if f == Flavour::Async { Op::ASend { h: 0, id: *id, plan: plan_no_cancel(rng, p) } } else { Op::Send { h: 0, id: *id } }).collect();
            tasks.push(TaskSpec { handles: vec![HandleSpec { side: Side::S, flavour: f, derive: dv(rng) }], ops });
        } else {
            let f = fl(rng);
            let ops = (0..recvs[t]).map(|_| if f == Flavour::Async { Op::ARecv { h: 0, plan: plan_no_cancel(rng, p) } } else { Op::Recv { h: 0 } }).collect();
            tasks.push(TaskSpec { handles: vec![HandleSpec { side: Side::R, flavour: f, derive: dv(rng) }], ops });
        }
    }
    Case { cap, ctor: fl(rng), class, mask: rng.next(), knobs: gen_knobs(rng, p), tasks, main_keeps_roots: true, lock_harness: false, epilogue: vec![], balanced: true }
}

/// a poll plan with spurious polls and waker changes but without cancellation
fn plan_no_cancel(rng: &mut Rng, p: &Profile) -> PollPlan {
    let mut q = p.clone();
    q.p_cancel = 0;
    q.p_never_poll = 0;
    let mut plan = gen_plan(rng, &q);
    plan.repoll_after_ready = false;
    plan
}

/// G-mpmc and its parameterisations.
pub fn gen_case(rng: &mut Rng, p: &Profile) -> Case {
    if rng.below(100) < p.p_bulk as u64 {
        return if rng.chance(1, 2) { gen_bulk(rng, p) } else { gen_crowd(rng, p) };
    }
    let cap = pick_cap(rng, p);
    let class = *rng.pick(&p.classes);
    let ctor = if rng.chance(1, 2) { Flavour::Sync } else { Flavour::Async };
    let ns = rng.range(p.senders.0 as u64, p.senders.1 as u64) as usize;
    let nr = rng.range(p.receivers.0 as u64, p.receivers.1 as u64) as usize;
    let mut nb = rng.range(p.both.0 as u64, p.both.1 as u64) as usize;
    while ns + nr + nb < p.min_tasks as usize {
        nb += 1;
    }
    let mut ids = IdGen(0);
    let mut tasks = Vec::new();
    let mut roles: Vec<u8> = Vec::new();
    roles.extend(std::iter::repeat(0).take(ns));
    roles.extend(std::iter::repeat(1).take(nr));
    roles.extend(std::iter::repeat(2).take(nb));
    // shuffle roles so that task ids do not encode the side
    for i in (1..roles.len()).rev() {
        let j = rng.below(i as u64 + 1) as usize;
        roles.swap(i, j);
    }
    let mut aux_budget = 40i32;
    for (ti, role) in roles.iter().enumerate() {
        let fl = |rng: &mut Rng| if rng.below(100) < p.p_async_handle as u64 { Flavour::Async } else { Flavour::Sync };
        let dv = |rng: &mut Rng| if rng.chance(1, 2) { Derive::CloneAs } else { Derive::CloneThenConvert };
        let mut handles = Vec::new();
        if *role == 0 || *role == 2 {
            handles.push(HandleSpec { side: Side::S, flavour: fl(rng), derive: dv(rng) });
        }
        if *role == 1 || *role == 2 {
            handles.push(HandleSpec { side: Side::R, flavour: fl(rng), derive: dv(rng) });
        }
        if p.mixed_flavours {
            // alternate flavours so both occur on each side when there are >= 2 tasks of a side
            let want = if ti % 2 == 0 { Flavour::Sync } else { Flavour::Async };
            for h in handles.iter_mut() {
                h.flavour = want;
            }
        }
        let n_ops = rng.range(p.ops.0 as u64, p.ops.1 as u64) as usize;
        let mut ops = Vec::new();
        let mut stream_open = false;
        let bounded_wait_only = *role == 2;
        let s_h = 0u8;
        let r_h = if *role == 2 { 1u8 } else { 0u8 };
        let close_at = if rng.below(100) < p.p_close as u64 { Some(rng.below(n_ops as u64 + 1) as usize) } else { None };
        // live handle slots of this task: (slot, side)
        let mut slots: Vec<(u8, Side, bool)> = handles.iter().enumerate().map(|(i, h)| (i as u8, h.side, true)).collect();
        for k in 0..n_ops {
            if close_at == Some(k) {
                ops.push(Op::Close { h: 0 });
            }
            if rng.below(100) < p.p_yield as u64 {
                ops.push(Op::Yield);
            }
            if rng.below(100) < p.p_advance as u64 {
                ops.push(Op::AdvanceClock { us: *rng.pick(&[1u32, 10, 50, 200]) });
            }
            if rng.below(100) < p.p_observe as u64 {
                let (h, side, _) = slots[rng.below(slots.len() as u64) as usize];
                ops.push(gen_observe(rng, h, side, p.p_obs_counts));
            }
            if rng.below(100) < p.p_handle_ops as u64 {
                let live: Vec<(u8, Side, bool)> = slots.iter().copied().filter(|s| s.2).collect();
                if !live.is_empty() {
                    let (h, side, _) = live[rng.below(live.len() as u64) as usize];
                    match rng.below(4) {
                        0 | 1 => {
                            ops.push(Op::Clone { h, kind: *rng.pick(&[CloneKind::Same, CloneKind::Sync, CloneKind::Async]) });
                            slots.push((slots.len() as u8, side, true));
                        }
                        2 => ops.push(Op::Convert { h }),
                        _ => {
                            // never drop the primary handles (0 / r_h): ops refer to them
                            if h != s_h && h != r_h {
                                ops.push(Op::DropHandle { h });
                                for s in slots.iter_mut() {
                                    if s.0 == h {
                                        s.2 = false;
                                    }
                                }
                            }
                        }
                    }
                }
            }
            let do_send = match role {
                0 => true,
                1 => false,
                _ => rng.chance(1, 2),
            };
            if do_send {
                ops.push(gen_send(rng, p, s_h, &mut ids, bounded_wait_only));
            } else {
                let before = ops.len();
                gen_recv(rng, p, r_h, &mut stream_open, bounded_wait_only, &mut ops);
                for o in &mut ops[before..] {
                    if let Op::Drain { pre, .. } = o {
                        if aux_budget - (*pre as i32) < 0 {
                            *pre = 0;
                        }
                        aux_budget -= *pre as i32;
                    }
                }
            }
        }
        if close_at == Some(n_ops) {
            ops.push(Op::Close { h: 0 });
        }
        if *role == 1 && rng.below(100) < p.p_recv_all as u64 {
            if stream_open {
                ops.push(Op::StreamDrop);
            }
            ops.push(Op::RecvAll { h: r_h, max: 64 });
        }
        tasks.push(TaskSpec { handles, ops });
    }
    // when no task can block indefinitely main keeps its root handles and inspects the quiescent channel
    let all_bounded = roles.iter().all(|r| *r == 2);
    let mut epilogue = Vec::new();
    if all_bounded && p.epilogue {
        for what in [Obs::SenderCount, Obs::ReceiverCount, Obs::IsClosed, Obs::Len, Obs::IsFull, Obs::IsEmpty] {
            epilogue.push(Op::Observe { h: 1, what });
        }
        epilogue.push(Op::Observe { h: 0, what: Obs::IsDisconnected });
        epilogue.push(Op::Drain { h: 1, pre: 0, spare: 0 });
        epilogue.push(Op::Observe { h: 1, what: Obs::IsTerminated });
        epilogue.push(Op::TryRecv { h: 1 });
    }
    Case { cap, ctor, class, mask: rng.next(), knobs: gen_knobs(rng, p), tasks, main_keeps_roots: all_bounded && p.epilogue, lock_harness: false, epilogue, balanced: false }
}

/// the profile used by property `prop`
pub fn profile_for(prop: &str) -> Profile {
    let mut p = Profile::default();
    // the happens-before / lifetime monitors end a run at their first report; they are switched on only in the
    // checks that own those reports, so that every other check sees the consequences for its own property
    p.monitors = matches!(prop, "C04" | "C07" | "C17");
    // checks that own some monitor reports and also consequences that a monitor's early end of the run would hide
    p.p_monitors = match prop {
        "C01" | "C03" => 30,
        "C13" | "C15" => 50,
        _ => 0,
    };
    match prop {
        "C01" => {
            p.p_close = 12;
            p.p_handle_ops = 5;
        }
        "C02" => {
            p.caps = vec![(Cap::Bounded(0), 30), (Cap::Bounded(1), 30), (Cap::Bounded(2), 20), (Cap::Bounded(3), 10), (Cap::Unbounded, 5)];
            p.senders = (1, 3);
            p.ops = (2, 6);
            p.classes.retain(|c| c.has_id());
        }
        "C04" => {
            p.p_cancel = 3;
        }
        "C05" => {
            p.classes.retain(|c| c.tracks_drop());
            p.p_close = 15;
            p.p_cancel = 15;
            p.send_w = [20, 15, 15, 8, 8, 5, 5, 24];
        }
        "C06" => {
            p.p_cancel = 0;
            p.p_never_poll = 0;
            p.p_close = 10;
            p.send_w = [40, 5, 5, 3, 2, 1, 1, 43];
            p.recv_w = [40, 5, 3, 1, 2, 40, 7, 2];
            p.p_recv_all = 70;
        }
        "C08" => {
            p.p_observe = 15;
            p.caps = vec![(Cap::Bounded(0), 30), (Cap::Bounded(1), 25), (Cap::Bounded(2), 20), (Cap::Bounded(3), 10), (Cap::Unbounded, 15)];
        }
        "C03" => {
            p.p_bulk = 0;
            p.epilogue = true;
            p.senders = (0, 1);
            p.receivers = (0, 1);
            p.both = (0, 2);
            p.ops = (1, 3);
            p.p_close = 15;
            p.p_handle_ops = 15;
            p.p_observe = 30;
            p.recv_w[6] = 0;
            p.p_recv_all = 20;
            p.p_cancel = 10;
            p.p_yield = 10;
        }
        "C10" => {
            p.p_close = 60;
            p.p_observe = 25;
            p.p_obs_counts = 40;
            p.p_handle_ops = 25;
            p.senders = (1, 2);
            p.receivers = (1, 2);
            p.both = (0, 1);
            p.ops = (1, 4);
        }
        "C11" => {
            p.p_handle_ops = 35;
            p.senders = (1, 3);
            p.receivers = (1, 3);
            p.ops = (1, 4);
            p.p_recv_all = 40;
            p.p_observe = 5;
        }
        "C12" => {
            p.epilogue = true;
            p.senders = (0, 1);
            p.receivers = (0, 1);
            p.both = (1, 3);
            p.p_handle_ops = 50;
            p.p_observe = 50;
            p.p_obs_counts = 85;
            p.p_close = 10;
            p.ops = (1, 5);
        }
        "C13" => {
            p.timeouts = vec![0, 5, 20, 100, 0, 5, 20, 100, u32::MAX, 2_000_000, 4_000_000_000];
            p.send_w = [5, 35, 35, 3, 3, 2, 2, 15];
            p.recv_w = [10, 50, 5, 2, 3, 20, 5, 5];
            p.p_advance = 15;
            p.p_close = 8;
            p.p_handle_ops = 5;
        }
        "C14" => {
            p.send_w = [10, 3, 3, 20, 20, 15, 15, 14];
            p.recv_w = [15, 5, 25, 25, 15, 10, 3, 2];
            p.p_close = 5;
        }
        "C15" => {
            p.p_cancel = 45;
            p.p_never_poll = 8;
            p.send_w = [15, 3, 3, 5, 3, 2, 2, 67];
            p.recv_w = [15, 3, 5, 2, 5, 55, 12, 3];
            p.senders = (1, 3);
            p.receivers = (1, 3);
        }
        "C16" => {
            p.p_cancel = 0;
            p.p_never_poll = 0;
            p.p_spurious = 40;
            p.p_new_waker = 30;
            p.p_repoll = 30;
            // close / last-handle drops racing a stream or a future whose wait has already been completed by a peer
            p.p_close = 10;
            p.p_handle_ops = 5;
            p.send_w = [15, 2, 2, 3, 2, 1, 1, 74];
            p.recv_w = [10, 2, 3, 1, 3, 41, 38, 2];
        }
        "C19" => {
            p.recv_w = [10, 5, 5, 2, 50, 10, 5, 3];
            p.senders = (1, 3);
            p.ops = (1, 5);
            p.caps = vec![(Cap::Bounded(0), 30), (Cap::Bounded(1), 30), (Cap::Bounded(2), 20), (Cap::Bounded(3), 10), (Cap::Unbounded, 10)];
            p.p_close = 5;
        }
        "C09" => {
            p.p_close = 12;
            p.p_obs_counts = 50;
            p.mixed_flavours = true;
            p.senders = (2, 2);
            p.receivers = (2, 2);
            p.ops = (1, 4);
            p.p_handle_ops = 20;
            p.p_observe = 15;
        }
        _ => {}
    }
    p
}
