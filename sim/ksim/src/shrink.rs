//! Minimisation of a failing run before it is reported:
//!  (1) case shrinking  - drop a task, drop an op, weaken an op, clear a poll plan, simpler payload, faults off
//!  (2) fault shrinking - drawn values to "no fault"
//!  (3) schedule shrinking - replace context switches by "continue the current task"
//! Candidates run in tolerant mode (follow the recorded decision when applicable) and, for case
//! candidates, also under a few fresh seeds; a candidate is accepted only if a violation of the same
//! class (signature up to '@') fires, and is then re-recorded exactly.

use crate::case::*;
use crate::check;
use crate::oracle::{RunData, Violation};
use crate::payload::Class;
use crate::run::execute;
use kanal_verif_rt::exec::{mix, Source};

pub fn class_of(sig: &str) -> &str {
    sig.split('@').next().unwrap_or(sig)
}

struct Sh<'a> {
    prop: &'a str,
    class: String,
    execs: u64,
    steps: u64,
    max_execs: u64,
    max_steps: u64,
    balanced_kinds: Option<Vec<Vec<&'static str>>>,
}

fn op_kinds(case: &Case) -> Vec<Vec<&'static str>> {
    case.tasks.iter().map(|t| t.ops.iter().map(|o| o.kind()).collect()).collect()
}

impl<'a> Sh<'a> {
    fn exhausted(&self) -> bool {
        self.execs >= self.max_execs || self.steps >= self.max_steps
    }
    /// run a candidate; Some((data, violation)) if the same class of violation fires
    fn try_run(&mut self, case: &Case, src: Source) -> Option<(RunData, Violation)> {
        if self.exhausted() {
            return None;
        }
        // a "balanced executors" case terminates by specification only as long as no operation is removed or
        // weakened: such candidates are not tried (schedule, fault and payload shrinking still apply)
        if let Some(k) = &self.balanced_kinds {
            if *k != op_kinds(case) {
                return None;
            }
        }
        self.execs += 1;
        let d = execute(case, src);
        self.steps += d.outcome.stats.steps;
        let (mine, _) = check::evaluate(self.prop, &d);
        let v = mine.into_iter().find(|v| class_of(&v.sig) == self.class)?;
        Some((d, v))
    }
    fn try_case(&mut self, case: &Case, ts: &[u8], ds: &[u64], salt: u64) -> Option<(RunData, Violation)> {
        if let Some(x) = self.try_run(case, Source::Script { ts: ts.to_vec(), ds: ds.to_vec(), strict: false }) {
            return Some(x);
        }
        for k in 0..6u64 {
            if let Some(x) = self.try_run(case, Source::Rng(mix(salt, k))) {
                return Some(x);
            }
        }
        None
    }
}

fn weaken(op: &Op) -> Vec<Op> {
    let empty = PollPlan::default();
    match op {
        Op::SendOptTimeout { h, id, us } => vec![Op::SendTimeout { h: *h, id: *id, us: *us }, Op::Send { h: *h, id: *id }],
        Op::SendTimeout { h, id, .. } => vec![Op::Send { h: *h, id: *id }],
        Op::TrySendOpt { h, id } | Op::TrySendRt { h, id } | Op::TrySendOptRt { h, id } => vec![Op::TrySend { h: *h, id: *id }],
        Op::ASend { h, id, plan } if *plan != empty => {
            let mut v = vec![Op::ASend { h: *h, id: *id, plan: empty.clone() }];
            if plan.acts.len() > 1 {
                let mut p = plan.clone();
                p.acts.remove(0);
                v.push(Op::ASend { h: *h, id: *id, plan: p });
            }
            v.push(Op::Send { h: *h, id: *id });
            v
        }
        Op::ASend { h, id, .. } => vec![Op::Send { h: *h, id: *id }],
        Op::RecvTimeout { h, .. } => vec![Op::Recv { h: *h }],
        Op::TryRecvRt { h } => vec![Op::TryRecv { h: *h }],
        Op::ARecv { h, plan } if *plan != empty => {
            let mut v = vec![Op::ARecv { h: *h, plan: empty.clone() }];
            if plan.acts.len() > 1 {
                let mut p = plan.clone();
                p.acts.remove(0);
                v.push(Op::ARecv { h: *h, plan: p });
            }
            v.push(Op::Recv { h: *h });
            v
        }
        Op::ARecv { h, .. } => vec![Op::Recv { h: *h }],
        Op::StreamNext { plan } if *plan != empty => vec![Op::StreamNext { plan: empty }],
        Op::Drain { h, pre, spare } if *pre > 0 || *spare > 0 => vec![Op::Drain { h: *h, pre: 0, spare: 0 }],
        Op::RecvAll { h, .. } => vec![Op::Recv { h: *h }],
        Op::Iter { h, n } if *n > 1 => vec![Op::Iter { h: *h, n: 1 }],
        _ => vec![],
    }
}

pub fn minimise(prop: &str, d0: &RunData, v0: &Violation) -> (RunData, Violation, bool) {
    let mut sh = Sh {
        prop,
        class: class_of(&v0.sig).to_string(),
        execs: 0,
        steps: 0,
        max_execs: 2500,
        max_steps: 60_000_000,
        balanced_kinds: if d0.case.balanced { Some(op_kinds(&d0.case)) } else { None },
    };
    // baseline: the exact script must reproduce
    let base = sh.try_run(&d0.case, Source::Script { ts: d0.outcome.ts.clone(), ds: d0.outcome.ds.clone(), strict: true });
    let Some((mut best, mut bv)) = base else {
        // cannot even reproduce exactly: report unminimised (the caller re-verifies in a fresh process anyway)
        let d2 = execute(&d0.case, Source::Script { ts: d0.outcome.ts.clone(), ds: d0.outcome.ds.clone(), strict: true });
        return (d2, v0.clone(), false);
    };
    let salt = d0.case.hash64();
    let mut progress = true;
    while progress && !sh.exhausted() {
        progress = false;
        // ---- drop a task
        let mut ti = 0;
        while ti < best.case.tasks.len() && best.case.tasks.len() > 1 {
            let mut c = best.case.clone();
            c.tasks.remove(ti);
            if let Some(f) = &mut c.knobs.freeze {
                if f.0 as usize == ti + 1 {
                    c.knobs.freeze = None;
                } else if f.0 as usize > ti + 1 {
                    f.0 -= 1;
                }
            }
            if let Some((d, v)) = sh.try_case(&c, &best.outcome.ts, &best.outcome.ds, salt) {
                best = d;
                bv = v;
                progress = true;
            } else {
                ti += 1;
            }
        }
        // ---- drop an op
        for t in 0..best.case.tasks.len() {
            let mut k = best.case.tasks[t].ops.len();
            while k > 0 {
                k -= 1;
                if k >= best.case.tasks[t].ops.len() {
                    continue;
                }
                let mut c = best.case.clone();
                c.tasks[t].ops.remove(k);
                if let Some((d, v)) = sh.try_case(&c, &best.outcome.ts, &best.outcome.ds, salt) {
                    best = d;
                    bv = v;
                    progress = true;
                }
                if sh.exhausted() {
                    break;
                }
            }
        }
        // ---- weaken an op
        for t in 0..best.case.tasks.len() {
            for k in 0..best.case.tasks[t].ops.len() {
                for w in weaken(&best.case.tasks[t].ops[k]) {
                    let mut c = best.case.clone();
                    c.tasks[t].ops[k] = w;
                    if let Some((d, v)) = sh.try_case(&c, &best.outcome.ts, &best.outcome.ds, salt) {
                        best = d;
                        bv = v;
                        progress = true;
                        break;
                    }
                }
                if sh.exhausted() {
                    break;
                }
            }
        }
        // ---- simpler environment
        let mut cands: Vec<Case> = Vec::new();
        {
            let k = &best.case.knobs;
            if k.p_stall != 0 || k.p_cs_freeze != 0 || k.p_spurious_park != 0 {
                let mut c = best.case.clone();
                c.knobs.p_stall = 0;
                c.knobs.p_cs_freeze = 0;
                c.knobs.p_spurious_park = 0;
                c.knobs.stall_max = 0;
                cands.push(c);
            }
            if k.time != TimeS::Tick {
                let mut c = best.case.clone();
                c.knobs.time = TimeS::Tick;
                cands.push(c);
            }
            if k.spin != [0, 0, 0] {
                let mut c = best.case.clone();
                c.knobs.spin = [0, 0, 0];
                cands.push(c);
            }
            let simple = if best.case.class.tracks_drop() { Class::SmallDrop } else { Class::U32 };
            if best.case.class != simple && best.case.class.has_id() {
                let mut c = best.case.clone();
                c.class = simple;
                cands.push(c);
            }
            for t in 0..best.case.tasks.len() {
                for h in 0..best.case.tasks[t].handles.len() {
                    if best.case.tasks[t].handles[h].derive != Derive::CloneAs {
                        let mut c = best.case.clone();
                        c.tasks[t].handles[h].derive = Derive::CloneAs;
                        cands.push(c);
                    }
                }
            }
        }
        for c in cands {
            if let Some((d, v)) = sh.try_case(&c, &best.outcome.ts, &best.outcome.ds, salt) {
                best = d;
                bv = v;
                progress = true;
            }
        }
    }
    // ---- fault shrinking: drawn values to zero
    let mut i = 0;
    while i < best.outcome.ds.len() && !sh.exhausted() {
        if best.outcome.ds[i] != 0 {
            let mut ds = best.outcome.ds.clone();
            ds[i] = 0;
            if let Some((d, v)) = sh.try_run(&best.case, Source::Script { ts: best.outcome.ts.clone(), ds, strict: false }) {
                best = d;
                bv = v;
            }
        }
        i += 1;
    }
    // ---- schedule shrinking: remove context switches
    let mut i = 1;
    let mut tries = 0;
    while i < best.outcome.ts.len() && !sh.exhausted() && tries < 600 {
        if best.outcome.ts[i] != best.outcome.ts[i - 1] {
            tries += 1;
            let mut ts = best.outcome.ts.clone();
            ts[i] = ts[i - 1];
            if let Some((d, v)) = sh.try_run(&best.case, Source::Script { ts, ds: best.outcome.ds.clone(), strict: false }) {
                // accept only if the schedule did not get longer
                if d.outcome.ts.len() <= best.outcome.ts.len() {
                    best = d;
                    bv = v;
                    continue;
                }
            }
        }
        i += 1;
    }
    // ---- re-record exactly
    match sh_final(prop, &best, &sh.class) {
        Some((d, v)) => (d, v, true),
        None => (best, bv, true),
    }
}

fn sh_final(prop: &str, best: &RunData, class: &str) -> Option<(RunData, Violation)> {
    let d = execute(&best.case, Source::Script { ts: best.outcome.ts.clone(), ds: best.outcome.ds.clone(), strict: true });
    let (mine, _) = check::evaluate(prop, &d);
    let v = mine.into_iter().find(|v| class_of(&v.sig) == class)?;
    Some((d, v))
}
