//! More history oracles: O-close (C10), O-disc (C11), O-count (C12), O-time (C13),
//! non-blocking (C14), polling contract (C16), drain (C19).
//! Every predicate is derived in DESIGN.md section 4 together with the argument
//! that it cannot fire on a tree where the property holds.

use crate::case::*;
use crate::interp::{OptAfter, Rec, Res, E};
use crate::oracle::{Analysis, DropWhere, SendStatus, Violation};
use kanal_verif_rt::probe as P;

fn v(sig: impl Into<String>, detail: impl Into<String>) -> Violation {
    Violation { sig: sig.into(), detail: detail.into() }
}

fn side_of(r: &Rec) -> Option<Side> {
    r.via.map(|x| x.0)
}

/// stamps at which the handle count of `side` changes: (+1 at clone, -1 at drop) as intervals
struct Counts {
    clones: Vec<(u64, u64)>,
    drops: Vec<(u64, u64)>,
}
impl Counts {
    fn of(a: &Analysis, side: Side) -> Counts {
        let mut c = Counts { clones: vec![], drops: vec![] };
        for r in a.d.recs.iter() {
            if side_of(r) != Some(side) || r.res != Res::Unit {
                continue;
            }
            let ret = if r.ret == 0 { u64::MAX } else { r.ret };
            match r.op {
                Op::Clone { .. } => c.clones.push((r.inv, ret)),
                Op::DropHandle { .. } => c.drops.push((r.inv, ret)),
                _ => {}
            }
        }
        c
    }
    /// smallest count the side can have at stamp t (clones completed by t, drops begun by t)
    fn min_at(&self, t: u64) -> i64 {
        1 + self.clones.iter().filter(|c| c.1 <= t).count() as i64 - self.drops.iter().filter(|d| d.0 <= t).count() as i64
    }
    /// largest count the side can have at stamp t (clones begun by t, drops completed by t)
    fn max_at(&self, t: u64) -> i64 {
        1 + self.clones.iter().filter(|c| c.0 <= t).count() as i64 - self.drops.iter().filter(|d| d.1 <= t).count() as i64
    }
    /// can the count have been zero at some stamp in [i, r]?
    fn maybe_zero_in(&self, i: u64, r: u64) -> bool {
        let mut pts: Vec<u64> = vec![i, r];
        for d in self.drops.iter() {
            if d.0 >= i && d.0 <= r {
                pts.push(d.0);
            }
        }
        pts.iter().any(|t| self.min_at(*t) <= 0)
    }
    /// first stamp from which the count is certainly zero for ever (None if never)
    fn surely_zero_from(&self) -> Option<u64> {
        let mut pts: Vec<u64> = self.drops.iter().map(|d| d.1).filter(|x| *x != u64::MAX).collect();
        pts.sort();
        for t in pts {
            // all clones that ever begin must have begun by t as well
            let all_clones_begun = self.clones.iter().all(|c| c.0 <= t);
            if all_clones_begun && self.max_at(t) <= 0 {
                return Some(t);
            }
        }
        None
    }
}

fn close_ok<'a>(a: &'a Analysis<'a>) -> Vec<&'a Rec> {
    a.d.recs.iter().filter(|r| r.res == Res::CloseOk).collect()
}
fn first_close_begin(a: &Analysis) -> Option<u64> {
    a.d.recs.iter().filter(|r| matches!(r.op, Op::Close { .. }) && r.res != Res::Skipped).map(|r| r.inv).min()
}

/// O-close: C10
pub fn o_close(a: &Analysis) -> Vec<Violation> {
    let mut out = Vec::new();
    let oks = close_ok(a);
    if oks.len() > 1 {
        out.push(v("close/twice", format!("{} close() calls returned Ok on one channel", oks.len())));
    }
    // a close that reports "already closed" needs a successful close that began before it returned
    for r in a.d.recs.iter().filter(|r| r.res == Res::CloseErr) {
        if !oks.iter().any(|o| o.inv < r.ret) {
            out.push(v("close/err-without-close", "close() reported `already closed` although no successful close had begun".to_string()));
        }
    }
    let Some(c) = oks.first() else { return out };
    let tc = c.ret;
    for r in a.d.recs.iter() {
        if r.inv <= tc || r.res == Res::Skipped || r.res == Res::Incomplete {
            continue;
        }
        // a stream's receive begins when its inner future was first polled, possibly in an earlier, abandoned next()
        if matches!(r.op, Op::StreamNext { .. }) && stream_begin(a, r) <= tc {
            continue;
        }
        // the realtime variants answer "not done" when the internal lock is busy (another operation overlaps)
        let rt_busy = matches!(r.op, Op::TrySendRt { .. } | Op::TrySendOptRt { .. } | Op::TryRecvRt { .. })
            && matches!(r.res, Res::SendRefused | Res::RecvNone)
            && a.d.recs.iter().any(|x| x.task != r.task && x.inv < r.ret && (x.ret > r.inv || x.ret == 0));
        if rt_busy {
            continue;
        }
        let bad: Option<String> = match (&r.op, &r.res) {
            (Op::Close { .. }, Res::CloseErr) => None,
            (Op::Close { .. }, x) => Some(format!("{:?}", x)),
            (Op::FutSend { .. } | Op::FutRecv { .. } | Op::FutPoll { .. } | Op::FutDrop { .. }, _) => None,
            (op, Res::SendErr(E::Closed)) if op.is_send_like() => match (&r.opt, op) {
                (OptAfter::Taken, _) => Some("error but the Option was emptied".into()),
                _ => None,
            },
            (Op::ASend { .. } | Op::ARecv { .. } | Op::StreamNext { .. }, Res::Cancelled) if r.polls == 0 || r.reg.is_none() => None,
            (op, x) if op.is_send_like() => Some(format!("{:?}", x)),
            (Op::Iter { .. }, Res::IterVals(vals)) if vals.is_empty() => None,
            (Op::StreamNext { .. }, Res::StreamEnd) => None,
            (op, Res::RecvErr(E::Closed)) if op.is_recv_like() => None,
            (op, x) if op.is_recv_like() => Some(format!("{:?}", x)),
            (Op::Observe { what, .. }, Res::Obs(n)) => {
                let want: Option<u64> = match what {
                    Obs::Len | Obs::SenderCount | Obs::ReceiverCount => Some(0),
                    Obs::IsEmpty | Obs::IsClosed | Obs::IsDisconnected | Obs::IsTerminated => Some(1),
                    _ => None,
                };
                match want {
                    Some(w) if w != *n => Some(format!("{:?} = {}", what, n)),
                    _ => None,
                }
            }
            _ => None,
        };
        if let Some(b) = bad {
            out.push(v(
                format!("close/op-after-close@{}", r.op.kind()),
                format!("{:?} began after close() had returned and yielded {}", r.op, b),
            ));
            break;
        }
    }
    // buffered values are destroyed by the time close returns
    if a.d.case.class.has_id() && a.d.case.class.tracks_drop() {
        for s in a.sends.iter() {
            if s.status != SendStatus::Ok || s.ret >= c.inv || a.recv_by_id.contains_key(&s.id) {
                continue;
            }
            let Some(e) = a.d.entries.get(s.id as usize) else { continue };
            match e.drops.first() {
                None => {
                    if a.completed {
                        out.push(v("close/buffer-survives", format!("id {} was buffered when close() ran and was never destroyed", s.id)))
                    }
                }
                Some(dr) => {
                    let (w, _) = a.drop_where(dr);
                    if w != DropWhere::RecvCancel && dr.stamp > tc {
                        out.push(v(
                            "close/buffer-survives",
                            format!("id {} was buffered when close() ran but was destroyed only after close() had returned ({:?})", s.id, w),
                        ));
                    }
                }
            }
        }
    }
    out
}

/// O-disc: C11
pub fn o_disc(a: &Analysis) -> Vec<Violation> {
    let mut out = Vec::new();
    let cs = Counts::of(a, Side::S);
    let cr = Counts::of(a, Side::R);
    let cb = first_close_begin(a);
    // is_terminated() == true says: no sender handle is left and nothing is buffered. A blocked or pending send
    // keeps its handle borrowed, so from that instant on no value can ever be received again.
    for o in a.d.recs.iter() {
        if let (Op::Observe { what: Obs::IsTerminated, .. }, Res::Obs(1)) = (&o.op, &o.res) {
            if let Some(rv) = a.recvs.iter().find(|rv| rv.inv > o.ret && o.ret != 0) {
                out.push(v(
                    "disc/value-after-terminated".to_string(),
                    format!("is_terminated() returned true at {}, yet {} of task {} that began at {} obtained {:?}", o.ret, rv.kind, rv.task, rv.inv, rv.ident),
                ));
                break;
            }
        }
    }
    for r in a.d.recs.iter() {
        if r.res == Res::Skipped || r.res == Res::Incomplete || r.ret == 0 {
            continue;
        }
        let closed_maybe = cb.map_or(false, |c| c < r.ret);
        // an error that speaks of the other side needs the other side to have been (possibly) empty
        match &r.res {
            Res::RecvErr(e @ (E::SendClosed | E::Closed)) if r.op.is_recv_like() => {
                if !closed_maybe && !cs.maybe_zero_in(r.inv, r.ret) && !matches!(r.op, Op::FutRecv { .. } | Op::FutPoll { .. }) {
                    out.push(v(
                        format!("disc/early-send-closed@{}", r.op.kind()),
                        format!("{:?} returned {:?} although a sender handle existed during the whole call and nobody closed the channel", r.op, e),
                    ));
                }
            }
            Res::StreamEnd => {
                if !closed_maybe && !cs.maybe_zero_in(r.inv.min(stream_begin(a, r)), r.ret) {
                    out.push(v("disc/early-send-closed@stream_next", "the stream ended although a sender handle existed and nobody closed the channel".to_string()));
                }
            }
            Res::SendErr(e @ (E::ReceiveClosed | E::Closed)) if r.op.is_send_like() => {
                if !closed_maybe && !cr.maybe_zero_in(r.inv, r.ret) && !matches!(r.op, Op::FutSend { .. }) {
                    out.push(v(
                        format!("disc/early-receive-closed@{}", r.op.kind()),
                        format!("{:?} returned {:?} although a receiver handle existed during the whole call and nobody closed the channel", r.op, e),
                    ));
                }
            }
            _ => {}
        }
    }
    // after the last receiver is certainly gone every send fails and hands its value to nobody
    if let Some(t0) = cr.surely_zero_from() {
        for s in a.sends.iter() {
            if s.inv > t0 && s.status == SendStatus::Ok {
                out.push(v(
                    format!("disc/send-after-disconnect@{}", s.kind),
                    format!("{} of id {} began after the last receiver handle had been dropped and reported success", s.kind, s.id),
                ));
            }
        }
    }
    // after the last sender is certainly gone: remaining values, then the error; never "nothing yet"
    if let Some(t0) = cs.surely_zero_from() {
        for r in a.d.recs.iter() {
            if r.inv > t0 && r.op.is_recv_like() && !matches!(r.op, Op::TryRecvRt { .. }) {
                if r.res == Res::RecvNone {
                    out.push(v(
                        format!("disc/recv-after-disconnect@{}", r.op.kind()),
                        format!("{:?} began after the last sender handle had been dropped and reported `nothing yet` instead of a value or the disconnect", r.op),
                    ));
                }
            }
        }
    }
    // a receive must not report an error while a value accepted before it began is still in the channel:
    // "receivers still obtain every previously accepted value and only then get the error"
    if cb.is_none() && a.d.case.class.has_id() {
        let tracks = a.d.case.class.tracks_drop();
        for s in a.sends.iter() {
            if s.status != SendStatus::Ok || a.recv_by_id.contains_key(&s.id) {
                continue;
            }
            // the value was never received by anybody; was it consumed by a cancelled receive future?
            let consumed_by_cancel = if tracks {
                a.d.entries.get(s.id as usize).and_then(|e| e.drops.first()).map_or(false, |dr| a.drop_where(dr).0 == DropWhere::RecvCancel)
            } else {
                !a.cancelled_recvs.is_empty()
            };
            if consumed_by_cancel {
                continue;
            }
            for r in a.d.recs.iter() {
                let err = matches!(r.res, Res::RecvErr(E::Closed | E::SendClosed) | Res::StreamEnd);
                if err && r.op.is_recv_like() && r.inv > s.ret && !matches!(r.op, Op::FutRecv { .. } | Op::FutPoll { .. }) {
                    out.push(v(
                        format!("disc/error-before-drained@{}", r.op.kind()),
                        format!(
                            "{:?} reported {:?} although id {} had been accepted by {} before the receive began and was never obtained by anyone",
                            r.op, r.res, s.id, s.kind
                        ),
                    ));
                    return out;
                }
            }
        }
    }
    // once a receive has reported the send-side disconnect no later receive obtains a value
    let first_sc = a.d.recs.iter().filter(|r| r.res == Res::RecvErr(E::SendClosed)).map(|r| r.ret).min();
    if let Some(e) = first_sc {
        for rv in a.recvs.iter() {
            if rv.inv > e {
                out.push(v(
                    format!("disc/value-after-send-closed@{}", rv.kind),
                    format!("{} obtained {:?} after another receive had already reported that all senders are gone and nothing is left", rv.kind, rv.ident),
                ));
                break;
            }
        }
    }
    out
}

fn stream_begin(a: &Analysis, r: &Rec) -> u64 {
    a.d.recs.iter().filter(|x| x.task == r.task && x.inv <= r.inv && matches!(x.op, Op::StreamNext { .. } | Op::StreamOpen { .. })).map(|x| x.inv).min().unwrap_or(r.inv)
}

/// O-count: C12
pub fn o_count(a: &Analysis) -> Vec<Violation> {
    let mut out = Vec::new();
    let cs = Counts::of(a, Side::S);
    let cr = Counts::of(a, Side::R);
    let cb = first_close_begin(a);
    let tc = close_ok(a).first().map(|c| c.ret);
    for r in a.d.recs.iter() {
        let (Op::Observe { what, .. }, Res::Obs(n)) = (&r.op, &r.res) else { continue };
        let c = match what {
            Obs::SenderCount => &cs,
            Obs::ReceiverCount => &cr,
            _ => continue,
        };
        let n = *n as i64;
        if let Some(tc) = tc {
            if r.inv > tc {
                if n != 0 {
                    out.push(v("count/nonzero-after-close", format!("{:?} = {} after close() had returned", what, n)));
                }
                continue;
            }
        }
        // the count can only have been changed by clones/drops overlapping or preceding the observation
        let lower = 1 + c.clones.iter().filter(|x| x.1 < r.inv).count() as i64 - c.drops.iter().filter(|x| x.0 < r.ret).count() as i64;
        let upper = 1 + c.clones.iter().filter(|x| x.0 < r.ret).count() as i64 - c.drops.iter().filter(|x| x.1 < r.inv).count() as i64;
        let closing = cb.map_or(false, |c| c < r.ret);
        if !((lower <= n && n <= upper) || (closing && n == 0)) {
            out.push(v(
                format!("count/mismatch@{:?}", what),
                format!("{:?} = {} but between {} and {} handles of that side were alive during the call", what, n, lower.max(0), upper),
            ));
        }
    }
    out
}

/// O-time: C13
pub fn o_time(a: &Analysis) -> Vec<Violation> {
    let mut out = Vec::new();
    for r in a.d.recs.iter() {
        let us = match r.op {
            Op::SendTimeout { us, .. } | Op::SendOptTimeout { us, .. } | Op::RecvTimeout { us, .. } => us as u64,
            _ => continue,
        };
        let timed_out = matches!(r.res, Res::SendErr(E::Timeout) | Res::RecvErr(E::Timeout));
        // promptness (bounded liveness): without stalls, freezes or clock jumps a timed-out call spends about three
        // of its own decisions per microsecond of its duration (clock read, state load, yield) plus a constant
        let k = &a.d.case.knobs;
        let _ = k;
        if timed_out && us == u32::MAX as u64 {
            out.push(v(format!("time/early@{}", r.op.kind()), format!("{:?} reported Timeout for an unlimited duration", r.op)));
            continue;
        }
        // no promptness bound: "Timeout is reported once the deadline has passed" fixes neither a number of steps nor
        // an amount of (simulated) time, both depend on tuning and on what other tasks do to the clock; a timed call
        // that never reports its timeout although nothing else completes it ends as a hang (O-hang, owned by C13)
        if timed_out && r.vt1 < r.vt0 + us * 1000 {
            out.push(v(
                format!("time/early@{}", r.op.kind()),
                format!("{:?} reported Timeout after {} ns of simulated time, before its {} us deadline", r.op, r.vt1 - r.vt0, us),
            ));
        }
    }
    out
}

const WAIT_PROBES: &[u32] = &[P::PUSH_SEND, P::PUSH_RECV];
const PARK_PROBES: &[u32] = &[P::WAIT_ENTER, P::WAIT_TIMEOUT_ENTER, P::ABW_ENTER, P::PARK_ENTER];

/// non-blocking operations never register, wait or park; realtime ones finish in a bounded number of own steps: C14 / C19
pub fn o_nonblock(a: &Analysis) -> Vec<Violation> {
    let mut out = Vec::new();
    for r in a.d.recs.iter() {
        let nb = matches!(
            r.op,
            Op::TrySend { .. } | Op::TrySendOpt { .. } | Op::TrySendRt { .. } | Op::TrySendOptRt { .. } | Op::TryRecv { .. } | Op::TryRecvRt { .. } | Op::Drain { .. }
        );
        if !nb || r.res == Res::Skipped {
            continue;
        }
        if r.probes.iter().any(|p| WAIT_PROBES.contains(p)) {
            out.push(v(format!("nonblock/registered@{}", r.op.kind()), format!("{:?} put a waiter into the channel's wait list", r.op)));
        }
        if r.probes.iter().any(|p| PARK_PROBES.contains(p)) {
            out.push(v(format!("nonblock/waited@{}", r.op.kind()), format!("{:?} entered a wait for a peer", r.op)));
        }
        let rt = matches!(r.op, Op::TrySendRt { .. } | Op::TrySendOptRt { .. } | Op::TryRecvRt { .. });
        // "within a bounded number of steps": a generous constant (the calls take 10-30 decisions); a call that waits for
        // a frozen lock holder exceeds any constant
        if rt && r.res != Res::Incomplete && r.own > 400 {
            out.push(v(
                format!("nonblock/solo-bound@{}", r.op.kind()),
                format!("{:?} took {} scheduling decisions of its own (bound 400): it waited for something", r.op, r.own),
            ));
        }
    }
    // a realtime call stuck when the run ended by itself (deadlock or decision bound); a run that a monitor or another
    // oracle ended early says nothing about the calls that were in flight
    if !a.completed && matches!(a.d.outcome.abort, Some(kanal_verif_rt::exec::Abort::Deadlock) | Some(kanal_verif_rt::exec::Abort::StepBound)) {
        for r in a.d.recs.iter() {
            let rt = matches!(r.op, Op::TrySendRt { .. } | Op::TrySendOptRt { .. } | Op::TryRecvRt { .. });
            if rt && r.res == Res::Incomplete {
                out.push(v(format!("nonblock/solo-bound@{}", r.op.kind()), format!("{:?} had not returned when the run ended", r.op)));
            }
        }
    }
    out
}

/// polling contract: C16
pub fn o_poll(a: &Analysis) -> Vec<Violation> {
    let mut out = Vec::new();
    let ntasks = a.d.case.tasks.len() + 1;
    let mut ended = vec![false; ntasks];
    for r in a.d.recs.iter() {
        let t = r.task as usize;
        if let Some(rp) = &r.repoll {
            let ok = match &r.op {
                Op::StreamNext { .. } => rp == "returned Ready(None)",
                _ => rp.starts_with("panicked"),
            };
            if !ok {
                let sig = if matches!(r.op, Op::StreamNext { .. }) { "stream/resumed-after-end".to_string() } else { format!("poll/no-panic@{}", r.op.kind()) };
                out.push(v(sig, format!("polling {} again after completion: {}", r.op.kind(), rp)));
            }
        }
        match (&r.op, &r.res) {
            (Op::StreamOpen { .. }, Res::Unit) => ended[t] = false,
            (Op::StreamNext { .. }, Res::StreamEnd) => ended[t] = true,
            (Op::StreamNext { .. }, Res::RecvOk(_)) if ended[t] => {
                out.push(v("stream/resumed-after-end", "the stream yielded a value after it had reported its end".to_string()));
            }
            (Op::FutPoll { f, .. }, Res::Panicked(m)) => {
                // a panic is the documented answer only for a future that had already returned its result
                let finished_before = a.d.recs.iter().any(|x| {
                    x.task == r.task && x.inv < r.inv && matches!(&x.op, Op::FutPoll { f: g, .. } if g == f) && !matches!(x.res, Res::Pending | Res::Panicked(_) | Res::Skipped)
                });
                if !finished_before {
                    out.push(v("poll/no-panic@fut_poll", format!("polling a future that had not completed panicked with `{}`", m)));
                }
            }
            _ => {}
        }
    }
    out
}

/// drain_into: C19
pub fn o_drain(a: &Analysis) -> Vec<Violation> {
    let mut out = Vec::new();
    for (ri, r) in a.d.recs.iter().enumerate() {
        let Op::Drain { .. } = r.op else { continue };
        match &r.res {
            Res::Drained { ret, appended, prefix_ok } => {
                if *ret == usize::MAX {
                    out.push(v("drain/closed-took", "drain_into reported an error but changed the vector".to_string()));
                    continue;
                }
                if !*prefix_ok {
                    out.push(v("drain/prefix", "drain_into changed the previous contents of the vector".to_string()));
                }
                if *ret != appended.len() {
                    out.push(v("drain/count", format!("drain_into returned {} but appended {} values", ret, appended.len())));
                }
                // everything that was in the channel when the drain began belongs to it (unless another
                // receive operation that began before the drain ended took it)
                for s in a.sends.iter() {
                    if s.status != SendStatus::Ok || !(s.accept() < r.inv) {
                        continue;
                    }
                    let Some(rv) = a.recv_by_id.get(&s.id).and_then(|x| x.first()).map(|i| &a.recvs[*i]) else { continue };
                    if rv.rec != ri && rv.inv > r.ret {
                        out.push(v(
                            format!("drain/missed@{}", s.kind),
                            format!(
                                "id {} ({}) was in the channel before drain_into began, the drain did not take it, and it was only obtained by a {} that began after the drain had returned",
                                s.id, s.kind, rv.kind
                            ),
                        ));
                    }
                }
                // a sender that was waiting in the channel before the drain began and was later released by a close /
                // disconnect was never claimed and never withdrew itself: it was listed during the whole drain
                for s in a.sends.iter() {
                    let released = s.status == SendStatus::Failed && matches!(s.err, Some(E::Closed) | Some(E::ReceiveClosed));
                    if released && s.reg.map_or(false, |t| t < r.inv) && s.ret > r.ret && !a.recv_by_id.contains_key(&s.id) {
                        out.push(v(
                            format!("drain/missed@{}", s.kind),
                            format!(
                                "id {} ({}) was waiting in the channel before drain_into began and was still waiting after it had returned (it was released with {:?} later): the drain left a blocked sender behind",
                                s.id, s.kind, s.err
                            ),
                        ));
                    }
                }
            }
            _ => {}
        }
    }
    out
}

/// Bounded progress beyond "no hang" (C06): a sender that waited until it was released by a close / disconnect
/// although, while it was waiting, more values were taken by receive operations than there were senders waiting
/// ahead of it — every receive that takes a value while senders wait must complete the sender at the head of the
/// wait list (refill of the buffer or direct hand-off). Symmetrically for waiting receivers and successful sends.
pub fn o_progress(a: &Analysis) -> Vec<Violation> {
    let mut out = Vec::new();
    // registrations that outlive their operation record (explicit future slots, abandoned stream waits) are not
    // tracked precisely enough for this counting argument
    let untracked = a.d.recs.iter().any(|r| {
        matches!(r.op, Op::FutSend { .. } | Op::FutRecv { .. } | Op::FutPoll { .. }) || (matches!(r.op, Op::StreamNext { .. }) && r.res == Res::Cancelled)
    });
    if untracked {
        return out;
    }
    // ---- starving senders
    let waiting_sends: Vec<&crate::oracle::SendEv> = a.sends.iter().filter(|s| s.reg.is_some() && s.ret != 0).collect();
    for s in waiting_sends.iter() {
        let released = s.status == SendStatus::Failed && matches!(s.err, Some(E::Closed) | Some(E::ReceiveClosed));
        if !released {
            continue;
        }
        let t = s.reg.unwrap();
        // senders that registered before s and had not returned when s registered
        let ahead = waiting_sends.iter().filter(|o| o.id != s.id && o.reg.unwrap() < t && o.ret > t).count();
        // values obtained by receive operations that began after s was waiting and ended before s returned
        let taken = a.recvs.iter().filter(|r| r.inv > t && r.ret != 0 && r.ret < s.ret).count();
        if taken > ahead {
            out.push(v(
                format!("progress/sender-starved@{}", s.kind),
                format!(
                    "{} of id {} waited in the channel until it was released with {:?}, although {} values were taken by receive operations that began while it was waiting and only {} senders were waiting ahead of it",
                    s.kind, s.id, s.err, taken, ahead
                ),
            ));
            break;
        }
    }
    // ---- starving receivers
    let waiting_recvs: Vec<&Rec> = a
        .d
        .recs
        .iter()
        .filter(|r| r.reg.is_some() && r.ret != 0 && r.op.is_recv_like())
        .collect();
    for r in waiting_recvs.iter() {
        let released = matches!(r.res, Res::RecvErr(E::Closed) | Res::RecvErr(E::SendClosed)) && matches!(r.op, Op::Recv { .. } | Op::ARecv { .. });
        if !released {
            continue;
        }
        let t = r.reg.unwrap();
        let ahead = waiting_recvs.iter().filter(|o| !std::ptr::eq(**o, *r) && o.reg.unwrap() < t && o.ret > t).count();
        let sent = a.sends.iter().filter(|s| s.status == SendStatus::Ok && s.inv > t && s.ret < r.ret).count();
        if sent > ahead {
            out.push(v(
                format!("progress/receiver-starved@{}", r.op.kind()),
                format!(
                    "{:?} waited until it was released with {:?}, although {} sends that began while it was waiting succeeded and only {} receivers were waiting ahead of it",
                    r.op, r.res, sent, ahead
                ),
            ));
            break;
        }
    }
    out
}
