//! Second engine (C07, C04): the unmodified kanal (guard off, real std threads) under Miri with many seeds.
//! Miri is itself a deterministic simulator: thread scheduling, weak-memory emulation and the clock are
//! functions of its seed; it checks every access, not only the hooked ones.

use serde_json::{json, Value};
use std::process::Command;

pub const FLAGS: &str = "-Zmiri-disable-stacked-borrows -Zmiri-preemption-rate=0.3";

fn native_dir() -> String {
    format!("{}/native", std::env::var("VERIF_DIR").unwrap_or_else(|_| "/verif".to_string()))
}

/// which classes of interpreter error belong to the property whose check runs the stage (a check only reports
/// what its own property speaks of; anything else is printed as a note and counted as inconclusive)
pub fn owns(prop: &str, sig: &str) -> bool {
    match prop {
        "C05" => sig.starts_with("miri/leak") || sig.starts_with("miri/panic") || sig.starts_with("miri/dangling-access") || sig.starts_with("miri/undefined-behaviour"),
        "C13" => !sig.starts_with("miri/data-race"),
        _ => true,
    }
}

pub fn scenarios_for(prop: &str) -> Vec<&'static str> {
    match prop {
        "C04" => vec!["sync_rendezvous", "small_payload_paths", "drain_blocked_senders", "zst_and_padding", "async_send_sync_recv", "async_recv_busy_poll", "async_send_busy_poll", "drain_async_pending_senders", "iter_until_disconnect", "timed_handoff_races", "unbounded_burst", "zst_with_drop"],
        // destroyed exactly once: heap-owning payloads make a leak or a second destruction an interpreter error
        "C05" => vec!["sync_rendezvous", "sync_mpsc_cap1", "small_payload_paths", "timeouts", "timed_handoff_races", "close_with_buffered_and_blocked", "zst_with_drop", "cancel_recv_future", "cancel_send_future", "last_receiver_drop_releases_senders", "realtime_contention"],
        "C13" => vec!["timeouts", "timed_handoff_races", "small_payload_paths", "close_with_buffered_and_blocked", "timeout_vs_last_receiver_drop"],
        "C15" => vec!["cancel_recv_future", "cancel_send_future", "stream_dropped_midway", "stream_spurious"],
        _ => vec![
            "sync_rendezvous",
            "sync_mpsc_cap1",
            "small_payload_paths",
            "async_send_sync_recv",
            "async_recv_waker_change",
            "async_send_waker_change",
            "cancel_recv_future",
            "cancel_send_future",
            "close_races_blocked",
            "timeouts",
            "stream_spurious",
            "drain_blocked_senders",
            "zst_and_padding",
            "async_recv_busy_poll",
            "async_send_busy_poll",
            "realtime_contention",
            "drain_async_pending_senders",
            "iter_until_disconnect",
            "clone_convert_drop_race",
            "close_with_buffered_and_blocked",
            "timed_handoff_races",
            "zst_with_drop",
            "stream_dropped_midway",
            "async_mpmc_cap1",
            "unbounded_burst",
            "last_receiver_drop_releases_senders",
            "timeout_vs_last_receiver_drop",
        ],
    }
}

fn classify(log: &str) -> (String, String) {
    let first = log.lines().find(|l| l.starts_with("error") || l.contains("panicked at")).unwrap_or("").to_string();
    let sig = if first.contains("Data race") {
        "miri/data-race"
    } else if first.contains("deadlock") {
        "miri/deadlock"
    } else if first.contains("uninitialized") {
        "miri/uninitialised-read"
    } else if first.contains("dangling") || first.contains("freed") || first.contains("out-of-bounds") {
        "miri/dangling-access"
    } else if first.contains("Undefined Behavior") {
        "miri/undefined-behaviour"
    } else if first.contains("panicked") {
        "miri/panic"
    } else if first.contains("memory leaked") || log.contains("memory leaked") {
        "miri/leak"
    } else {
        "miri/error"
    };
    (sig.to_string(), first)
}

pub fn run_one(scenario: &str, seeds: &str, single_seed: Option<u64>) -> (bool, String, Option<u64>, u64) {
    let flags = match single_seed {
        Some(s) => format!("{} -Zmiri-seed={}", FLAGS, s),
        None => format!("{} -Zmiri-many-seeds={}", FLAGS, seeds),
    };
    let out = Command::new("cargo")
        .args(["+nightly", "miri", "run", "--offline", "-q", "--", scenario])
        .current_dir(native_dir())
        .env("MIRIFLAGS", flags)
        .env("CARGO_NET_OFFLINE", "true")
        .output();
    let out = match out {
        Ok(o) => o,
        Err(e) => return (false, format!("error: cannot start cargo miri: {}", e), None, 0),
    };
    let log = format!("{}{}", String::from_utf8_lossy(&out.stdout), String::from_utf8_lossy(&out.stderr));
    let tried = log.lines().filter(|l| l.starts_with("Trying seed")).count() as u64;
    let failing = log.lines().find_map(|l| l.strip_prefix("FAILING SEED: ")).and_then(|s| s.trim().parse().ok());
    (out.status.success(), log, failing.or(single_seed), if single_seed.is_some() { 1 } else { tried })
}

/// returns (violations as json {sig, detail, replay}, statistics)
pub fn stage(prop: &str, tier: &str, base_seed: u64) -> (Vec<Value>, Value, bool) {
    let n: u64 = std::env::var("VERIF_MIRI_SEEDS").ok().and_then(|s| s.parse().ok()).unwrap_or(if tier == "thorough" { 512 } else { 32 });
    let start = (base_seed % 1000) * 1000;
    let range = format!("{}..{}", start, start + n);
    let mut vios = Vec::new();
    let mut per = serde_json::Map::new();
    let mut total = 0u64;
    let mut harness_err = false;
    // scenarios run four at a time (each cargo-miri invocation has ~1 s of start-up during which the
    // cores idle); results are consumed in the fixed scenario order
    let scs = scenarios_for(prop);
    let mut results: Vec<Option<(bool, String, Option<u64>, u64)>> = (0..scs.len()).map(|_| None).collect();
    for (ci, chunk) in scs.chunks(4).enumerate() {
        let hs: Vec<_> = chunk
            .iter()
            .map(|sc| {
                let sc = sc.to_string();
                let range = range.clone();
                std::thread::spawn(move || run_one(&sc, &range, None))
            })
            .collect();
        for (k, h) in hs.into_iter().enumerate() {
            results[ci * 4 + k] = Some(h.join().expect("miri runner thread"));
        }
    }
    for (sc, res) in scs.into_iter().zip(results.into_iter()) {
        let (ok, log, failing, tried) = res.expect("scenario result");
        total += tried;
        per.insert(sc.to_string(), json!({"seeds_tried": tried, "ok": ok}));
        if !ok {
            if tried == 0 && failing.is_none() {
                eprintln!("harness error: miri stage could not run scenario {}:\n{}", sc, log.lines().take(30).collect::<Vec<_>>().join("\n"));
                harness_err = true;
                continue;
            }
            let (sig, first) = classify(&log);
            if !owns(prop, &sig) {
                eprintln!("note: miri scenario {} reported {} ({}), which is not what {} speaks of: not counted", sc, sig, first, prop);
                per.insert(sc.to_string(), json!({"seeds_tried": tried, "ok": ok, "foreign_report": sig}));
                continue;
            }
            let dir = format!("{}/replays", std::env::var("VERIF_DIR").unwrap_or_else(|_| "/verif".to_string()));
            let _ = std::fs::create_dir_all(&dir);
            let path = format!("{}/{}-miri-{}-{}.json", dir, prop, sc, failing.unwrap_or(0));
            let rp = json!({"version": 1, "engine": "miri", "property": prop, "signature": format!("{}@{}", sig, sc), "scenario": sc, "miri_seed": failing, "flags": FLAGS, "detail": first});
            std::fs::write(&path, serde_json::to_string_pretty(&rp).unwrap()).expect("write replay");
            vios.push(json!({"index": 0, "sig": format!("{}@{}", sig, sc), "detail": first, "replay": path}));
        }
    }
    (vios, json!({"engine": "miri (cargo +nightly miri run, guard off, unmodified kanal, real std threads)", "flags": FLAGS, "seed_range": range, "executions": total, "scenarios": per}), harness_err)
}

pub fn replay(rp: &Value) -> i32 {
    let sc = rp["scenario"].as_str().unwrap_or("");
    let seed = rp["miri_seed"].as_u64();
    let (ok, log, _, _) = run_one(sc, "", seed.or(Some(0)));
    if ok {
        println!("miri replay of scenario {} seed {:?}: no error", sc, seed);
        return 0;
    }
    let (sig, first) = classify(&log);
    println!("VIOLATION property={} replay=(miri scenario {} seed {:?})", rp["property"].as_str().unwrap_or(""), sc, seed);
    println!("  signature={}@{}", sig, sc);
    println!("  {}", first);
    1
}
