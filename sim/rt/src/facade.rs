//! `core` and `std` as kanal sees them under the guard: everything is the real
//! thing except atomics, thread blocking, time and the spin hint.

use crate::exec;
use crate::mon;

pub mod core {
    pub use ::core::*;
    pub mod sync {
        pub use ::core::sync::*;
        pub mod atomic {
            pub use super::super::super::atomics::*;
            pub use ::core::sync::atomic::Ordering;
        }
    }
    pub mod hint {
        pub use ::core::hint::*;
        #[inline(always)]
        pub fn spin_loop() {}
    }
}

pub mod std {
    pub use ::std::*;
    pub mod sync {
        pub use ::std::sync::*;
        pub mod atomic {
            pub use super::super::super::atomics::*;
            pub use ::core::sync::atomic::Ordering;
        }
    }
    pub mod hint {
        pub use ::std::hint::*;
        #[inline(always)]
        pub fn spin_loop() {}
    }
    pub mod thread {
        pub use ::std::thread::{Builder, JoinHandle, ThreadId};
        use ::core::num::NonZeroUsize;
        use ::core::time::Duration;

        #[derive(Debug)]
        pub struct Thread(usize);
        impl Clone for Thread {
            fn clone(&self) -> Self {
                // reading a thread handle out of a waiter's cell is an access to that waiter's region
                crate::mon::mem_read(self as *const Thread as usize, "Thread::clone");
                Thread(self.0)
            }
        }
        impl Thread {
            pub fn unpark(&self) {
                crate::exec::unpark(self.0)
            }
        }
        pub fn current() -> Thread {
            Thread(crate::exec::current())
        }
        pub fn park() {
            crate::exec::park()
        }
        pub fn park_timeout(d: Duration) {
            crate::exec::park_timeout_ns(d.as_nanos().min(u64::MAX as u128 / 4) as u64)
        }
        pub use ::std::thread::panicking;
        pub fn yield_now() {
            crate::exec::yield_now()
        }
        pub fn sleep(d: Duration) {
            crate::exec::sleep_ns(d.as_nanos() as u64)
        }
        pub fn available_parallelism() -> ::std::io::Result<NonZeroUsize> {
            Ok(NonZeroUsize::new(crate::parallelism().unwrap_or(4).max(1)).unwrap())
        }
    }
    pub mod time {
        pub use ::std::time::{Duration, SystemTime, SystemTimeError, UNIX_EPOCH};
        use ::core::ops::{Add, Sub};

        #[derive(Clone, Copy, PartialEq, Eq, PartialOrd, Ord, Debug, Hash)]
        pub struct Instant(u64);
        impl Instant {
            pub fn now() -> Instant {
                Instant(crate::exec::now_ns())
            }
            pub fn checked_add(&self, d: Duration) -> Option<Instant> {
                // like std on Linux (seconds are an i64): a duration whose seconds do not fit overflows
                let now_secs = self.0 / 1_000_000_000;
                if d.as_secs() > (i64::MAX as u64).saturating_sub(now_secs) {
                    return None;
                }
                let n = d.as_nanos();
                if n > (u64::MAX / 2) as u128 {
                    // representable for std, too far for the simulated clock: saturate (it can never be reached)
                    return Some(Instant(u64::MAX / 2));
                }
                self.0.checked_add(n as u64).map(Instant)
            }
            pub fn checked_sub(&self, d: Duration) -> Option<Instant> {
                self.0.checked_sub(d.as_nanos() as u64).map(Instant)
            }
            pub fn duration_since(&self, earlier: Instant) -> Duration {
                Duration::from_nanos(self.0.saturating_sub(earlier.0))
            }
            pub fn saturating_duration_since(&self, earlier: Instant) -> Duration {
                Duration::from_nanos(self.0.saturating_sub(earlier.0))
            }
            pub fn checked_duration_since(&self, earlier: Instant) -> Option<Duration> {
                self.0.checked_sub(earlier.0).map(Duration::from_nanos)
            }
            pub fn elapsed(&self) -> Duration {
                Instant::now().duration_since(*self)
            }
        }
        impl Add<Duration> for Instant {
            type Output = Instant;
            fn add(self, d: Duration) -> Instant {
                self.checked_add(d).expect("overflow when adding duration to instant")
            }
        }
        impl Sub<Duration> for Instant {
            type Output = Instant;
            fn sub(self, d: Duration) -> Instant {
                self.checked_sub(d).expect("overflow when subtracting duration from instant")
            }
        }
        impl ::core::ops::AddAssign<Duration> for Instant {
            fn add_assign(&mut self, d: Duration) {
                *self = *self + d;
            }
        }
        impl ::core::ops::SubAssign<Duration> for Instant {
            fn sub_assign(&mut self, d: Duration) {
                *self = *self - d;
            }
        }
        impl Sub<Instant> for Instant {
            type Output = Duration;
            fn sub(self, o: Instant) -> Duration {
                self.duration_since(o)
            }
        }
    }
}

pub mod atomics {
    use super::{exec, mon};
    use ::core::cell::UnsafeCell;
    use ::core::sync::atomic::Ordering;

    #[inline(always)]
    pub fn fence(ord: Ordering) {
        exec::switch(false);
        mon::fence(ord);
    }
    #[inline(always)]
    pub fn compiler_fence(_ord: Ordering) {}

    macro_rules! atomic_int {
        ($name:ident, $t:ty) => {
            #[repr(transparent)]
            pub struct $name(UnsafeCell<$t>);
            unsafe impl Sync for $name {}
            unsafe impl Send for $name {}
            impl Default for $name {
                fn default() -> Self {
                    Self::new(Default::default())
                }
            }
            impl From<$t> for $name {
                fn from(v: $t) -> Self {
                    Self::new(v)
                }
            }
            impl ::core::fmt::Debug for $name {
                fn fmt(&self, f: &mut ::core::fmt::Formatter<'_>) -> ::core::fmt::Result {
                    write!(f, "{:?}", unsafe { *self.0.get() })
                }
            }
            impl $name {
                #[inline(always)]
                pub const fn new(v: $t) -> Self {
                    Self(UnsafeCell::new(v))
                }
                #[inline(always)]
                fn addr(&self) -> usize {
                    self.0.get() as usize
                }
                pub fn get_mut(&mut self) -> &mut $t {
                    self.0.get_mut()
                }
                pub fn into_inner(self) -> $t {
                    self.0.into_inner()
                }
                pub fn as_ptr(&self) -> *mut $t {
                    self.0.get()
                }
                #[inline]
                pub fn load(&self, ord: Ordering) -> $t {
                    exec::switch(false);
                    mon::atomic_load(self.addr(), ord);
                    unsafe { *self.0.get() }
                }
                #[inline]
                pub fn store(&self, v: $t, ord: Ordering) {
                    exec::switch(false);
                    mon::atomic_store(self.addr(), ord);
                    exec::note_modification(self.addr(), ::core::mem::size_of::<$t>(), unsafe { *self.0.get() } as u64);
                    unsafe { *self.0.get() = v }
                }
                #[inline]
                fn rmw(&self, ord: Ordering, f: impl FnOnce($t) -> $t) -> $t {
                    exec::switch(false);
                    mon::atomic_rmw(self.addr(), ord);
                    exec::note_modification(self.addr(), ::core::mem::size_of::<$t>(), unsafe { *self.0.get() } as u64);
                    unsafe {
                        let old = *self.0.get();
                        *self.0.get() = f(old);
                        old
                    }
                }
                pub fn swap(&self, v: $t, ord: Ordering) -> $t {
                    self.rmw(ord, |_| v)
                }
                #[inline]
                pub fn compare_exchange(&self, cur: $t, new: $t, ok: Ordering, fail: Ordering) -> Result<$t, $t> {
                    exec::switch(false);
                    let old = unsafe { *self.0.get() };
                    if old == cur {
                        mon::atomic_rmw(self.addr(), ok);
                        exec::note_modification(self.addr(), ::core::mem::size_of::<$t>(), old as u64);
                        unsafe { *self.0.get() = new };
                        Ok(old)
                    } else {
                        mon::atomic_load(self.addr(), fail);
                        Err(old)
                    }
                }
                /// may fail spuriously, as the real one may on LL/SC machines (fault kind F13)
                #[inline]
                pub fn compare_exchange_weak(&self, cur: $t, new: $t, ok: Ordering, fail: Ordering) -> Result<$t, $t> {
                    if exec::weak_cas_fails() {
                        exec::switch(false);
                        mon::atomic_load(self.addr(), fail);
                        return Err(unsafe { *self.0.get() });
                    }
                    self.compare_exchange(cur, new, ok, fail)
                }
                pub fn fetch_update(
                    &self,
                    set: Ordering,
                    fetch: Ordering,
                    mut f: impl FnMut($t) -> Option<$t>,
                ) -> Result<$t, $t> {
                    let mut prev = self.load(fetch);
                    while let Some(next) = f(prev) {
                        match self.compare_exchange_weak(prev, next, set, fetch) {
                            x @ Ok(_) => return x,
                            Err(p) => prev = p,
                        }
                    }
                    Err(prev)
                }
            }
        };
    }
    macro_rules! atomic_arith {
        ($name:ident, $t:ty) => {
            impl $name {
                pub fn fetch_add(&self, v: $t, ord: Ordering) -> $t {
                    self.rmw(ord, |o| o.wrapping_add(v))
                }
                pub fn fetch_sub(&self, v: $t, ord: Ordering) -> $t {
                    self.rmw(ord, |o| o.wrapping_sub(v))
                }
                pub fn fetch_and(&self, v: $t, ord: Ordering) -> $t {
                    self.rmw(ord, |o| o & v)
                }
                pub fn fetch_or(&self, v: $t, ord: Ordering) -> $t {
                    self.rmw(ord, |o| o | v)
                }
                pub fn fetch_xor(&self, v: $t, ord: Ordering) -> $t {
                    self.rmw(ord, |o| o ^ v)
                }
                pub fn fetch_nand(&self, v: $t, ord: Ordering) -> $t {
                    self.rmw(ord, |o| !(o & v))
                }
                pub fn fetch_max(&self, v: $t, ord: Ordering) -> $t {
                    self.rmw(ord, |o| o.max(v))
                }
                pub fn fetch_min(&self, v: $t, ord: Ordering) -> $t {
                    self.rmw(ord, |o| o.min(v))
                }
            }
        };
    }
    atomic_int!(AtomicU8, u8);
    atomic_int!(AtomicU16, u16);
    atomic_int!(AtomicU32, u32);
    atomic_int!(AtomicU64, u64);
    atomic_int!(AtomicUsize, usize);
    atomic_int!(AtomicI8, i8);
    atomic_int!(AtomicI16, i16);
    atomic_int!(AtomicI32, i32);
    atomic_int!(AtomicI64, i64);
    atomic_int!(AtomicIsize, isize);
    atomic_int!(AtomicBool, bool);
    atomic_arith!(AtomicU8, u8);
    atomic_arith!(AtomicU16, u16);
    atomic_arith!(AtomicU32, u32);
    atomic_arith!(AtomicU64, u64);
    atomic_arith!(AtomicUsize, usize);
    atomic_arith!(AtomicI8, i8);
    atomic_arith!(AtomicI16, i16);
    atomic_arith!(AtomicI32, i32);
    atomic_arith!(AtomicI64, i64);
    atomic_arith!(AtomicIsize, isize);
    impl AtomicBool {
        pub fn fetch_and(&self, v: bool, ord: Ordering) -> bool {
            self.rmw(ord, |o| o & v)
        }
        pub fn fetch_or(&self, v: bool, ord: Ordering) -> bool {
            self.rmw(ord, |o| o | v)
        }
        pub fn fetch_xor(&self, v: bool, ord: Ordering) -> bool {
            self.rmw(ord, |o| o ^ v)
        }
        pub fn fetch_nand(&self, v: bool, ord: Ordering) -> bool {
            self.rmw(ord, |o| !(o & v))
        }
        pub fn fetch_not(&self, ord: Ordering) -> bool {
            self.rmw(ord, |o| !o)
        }
    }
}
