//! In-run monitors fed by the shimmed atomics and by the guarded hooks in kanal:
//!  * O-hb   happens-before (vector clocks, C++20/Rust rules executed under SC)
//!  * O-life lifetime registry of published waiter regions
//!  * O-cs   critical-section monitor
//!  * wait-list mirror (exact copy of the channel's wait list after every
//!    ChannelInternal method)

use crate::exec::{ex, violation, MAXT, VC};
use core::sync::atomic::Ordering;
use std::collections::HashMap;
use std::hash::{BuildHasherDefault, Hasher};

#[derive(Default, Clone, Copy)]
pub struct Fx(u64);
impl Hasher for Fx {
    fn finish(&self) -> u64 {
        self.0
    }
    fn write(&mut self, b: &[u8]) {
        for &x in b {
            self.0 = (self.0 ^ x as u64).wrapping_mul(0x100000001b3);
        }
    }
    fn write_usize(&mut self, x: usize) {
        self.0 = (x as u64 ^ (x as u64 >> 17)).wrapping_mul(0x9E3779B97F4A7C15);
    }
}
type Map<V> = HashMap<usize, V, BuildHasherDefault<Fx>>;

#[derive(Clone)]
pub struct Loc {
    w_task: u8,
    w_epoch: u32,
    w_site: &'static str,
    reads: [u32; MAXT],
    r_sites: [&'static str; MAXT],
}

#[derive(Clone, Debug)]
pub struct Region {
    pub sig: (usize, usize),
    pub slot: (usize, usize),
    pub owner: u8,
    pub pub_epoch: u32,
    pub live: bool,
    pub ord: u32,
}

impl Region {
    #[inline]
    fn contains(&self, a: usize) -> bool {
        (a >= self.sig.0 && a < self.sig.0 + self.sig.1) || (self.slot.1 > 0 && a >= self.slot.0 && a < self.slot.0 + self.slot.1)
    }
    fn overlaps(&self, lo: usize, len: usize) -> bool {
        if len == 0 {
            return false;
        }
        let ov = |r: (usize, usize)| r.1 > 0 && lo < r.0 + r.1 && r.0 < lo + len;
        ov(self.sig) || ov(self.slot)
    }
}

#[derive(Default)]
pub struct Monitors {
    atomics: Map<VC>,
    locs: Map<Loc>,
    pub regions: Vec<Region>,
    n_regions: u32,
    /// per channel: addresses currently in the wait list
    waitlists: Vec<(usize, Vec<usize>)>,
    /// channels whose wait list is being torn down right now (terminate_signals in progress):
    /// entries may refer to waiters that were already released
    teardown: Vec<usize>,
    /// registered channels: (address of the ChannelInternal, address of its lock, function that reads the REAL wait list)
    chans: Vec<(usize, usize, fn(usize) -> Vec<usize>)>,
    /// waiters that were retired while listed and while another task was inside the channel's critical section
    /// (the list is in flux): judged when that critical section ends. (lock, channel, waiter, region ordinal)
    deferred: Vec<(usize, usize, usize, u32)>,
    cs_owner: Vec<(usize, Option<usize>, u64)>,
    pub accesses: u64,
    pub cross_accesses: u64,
    pub cs_enters: u64,
    pub publishes: u64,
    pub retires: u64,
}

#[inline]
fn is_acq(o: Ordering) -> bool {
    matches!(o, Ordering::Acquire | Ordering::AcqRel | Ordering::SeqCst)
}
#[inline]
fn is_rel(o: Ordering) -> bool {
    matches!(o, Ordering::Release | Ordering::AcqRel | Ordering::SeqCst)
}

#[inline]
fn on() -> Option<&'static mut crate::exec::Exec> {
    match ex() {
        Some(e) if e.cfg.monitors && e.abort.is_none() => Some(e),
        _ => None,
    }
}

fn check_dead(e: &mut crate::exec::Exec, addr: usize, what: &'static str) {
    let cur = e.current;
    if e.tasks[cur].peer_depth == 0 {
        return;
    }
    for r in e.mon.regions.iter() {
        if !r.live && r.contains(addr) {
            let ord = r.ord;
            let owner = r.owner;
            violation(
                "life/peer-after-retire",
                format!(
                    "task {} accessed waiter region #{} (owner task {}) at `{}` after the owner retired it",
                    cur, ord, owner, what
                ),
            );
        }
    }
}

pub fn atomic_load(addr: usize, ord: Ordering) {
    let Some(e) = on() else { return };
    check_dead(e, addr, "atomic load");
    let cur = e.current;
    if let Some(rel) = e.mon.atomics.get(&addr).copied() {
        if is_acq(ord) {
            e.tasks[cur].vc.join(&rel);
        } else {
            e.tasks[cur].pending_acq.join(&rel);
        }
    }
}

pub fn atomic_store(addr: usize, ord: Ordering) {
    let Some(e) = on() else { return };
    check_dead(e, addr, "atomic store");
    let cur = e.current;
    if is_rel(ord) {
        let vc = e.tasks[cur].vc;
        e.mon.atomics.insert(addr, vc);
        e.tasks[cur].vc.0[cur] += 1;
    } else {
        // a relaxed store ends the release sequence; only an earlier release fence counts
        let fr = e.tasks[cur].fence_rel;
        e.mon.atomics.insert(addr, fr);
    }
}

pub fn atomic_rmw(addr: usize, ord: Ordering) {
    let Some(e) = on() else { return };
    check_dead(e, addr, "atomic rmw");
    let cur = e.current;
    let rel = e.mon.atomics.get(&addr).copied().unwrap_or_default();
    if is_acq(ord) {
        e.tasks[cur].vc.join(&rel);
    } else {
        e.tasks[cur].pending_acq.join(&rel);
    }
    // an RMW continues the release sequence: join, never replace
    let mut n = rel;
    if is_rel(ord) {
        let vc = e.tasks[cur].vc;
        n.join(&vc);
        e.tasks[cur].vc.0[cur] += 1;
    } else {
        let fr = e.tasks[cur].fence_rel;
        n.join(&fr);
    }
    e.mon.atomics.insert(addr, n);
}

pub fn fence(ord: Ordering) {
    let Some(e) = on() else { return };
    let cur = e.current;
    if is_acq(ord) {
        let p = e.tasks[cur].pending_acq;
        e.tasks[cur].vc.join(&p);
    }
    if is_rel(ord) {
        e.tasks[cur].fence_rel = e.tasks[cur].vc;
        e.tasks[cur].vc.0[cur] += 1;
    }
}

fn race(e: &mut crate::exec::Exec, kind: &str, a_site: &str, a_task: usize, b_site: &str) -> ! {
    let cur = e.current;
    // site pair in canonical order so that the signature does not depend on who came first
    let (x, y) = if a_site <= b_site { (a_site, b_site) } else { (b_site, a_site) };
    violation(
        &format!("hb/race/{}x{}", x, y),
        format!(
            "{}: `{}` by task {} is not ordered before `{}` by task {}",
            kind, a_site, a_task, b_site, cur
        ),
    )
}

fn loc_entry<'a>(m: &'a mut Monitors, addr: usize, owner: u8, epoch: u32) -> &'a mut Loc {
    m.locs.entry(addr).or_insert_with(|| Loc {
        w_task: owner,
        w_epoch: epoch,
        w_site: "publish",
        reads: [0; MAXT],
        r_sites: [""; MAXT],
    })
}

fn access(addr: usize, site: &'static str, write: bool) {
    // a hooked non-atomic access to a published waiter region is a scheduling point too: the consequences
    // of an unprotected access (not only its happens-before verdict) become reachable by schedules
    if let Some(e) = ex() {
        if e.abort.is_none() && e.mon.regions.iter().any(|r| r.live && r.contains(addr)) {
            crate::exec::switch(false);
        }
    }
    let Some(e) = on() else { return };
    check_dead(e, addr, site);
    let cur = e.current;
    // only locations inside a live published region are monitored
    let mut found: Option<(u8, u32)> = None;
    for r in e.mon.regions.iter() {
        if r.live && r.contains(addr) {
            found = Some((r.owner, r.pub_epoch));
            break;
        }
    }
    let Some((owner, pe)) = found else { return };
    e.mon.accesses += 1;
    if owner as usize != cur {
        e.mon.cross_accesses += 1;
    }
    let vc = e.tasks[cur].vc;
    let l = loc_entry(&mut e.mon, addr, owner, pe);
    let (wt, we, ws) = (l.w_task as usize, l.w_epoch, l.w_site);
    if wt != cur && we > vc.0[wt] {
        race(e, if write { "write-write" } else { "write-read" }, ws, wt, site);
    }
    if write {
        for u in 0..MAXT {
            if u != cur && l.reads[u] > vc.0[u] {
                let rs = l.r_sites[u];
                race(e, "read-write", rs, u, site);
            }
        }
        l.w_task = cur as u8;
        l.w_epoch = vc.0[cur];
        l.w_site = site;
        l.reads = [0; MAXT];
    } else {
        l.reads[cur] = vc.0[cur];
        l.r_sites[cur] = site;
    }
}

pub fn mem_read(addr: usize, site: &'static str) {
    access(addr, site, false)
}
pub fn mem_write(addr: usize, site: &'static str) {
    access(addr, site, true)
}

/// The owner makes `[sig, sig+sig_len)` and `[slot, slot+slot_len)` reachable by peers.
pub fn publish(sig: usize, sig_len: usize, slot: usize, slot_len: usize) {
    // regions are tracked in every run (hooked accesses inside them are scheduling points);
    // the race / lifetime *checks* run only when the monitors are on
    let Some(e) = ex() else { return };
    if e.abort.is_some() {
        return;
    }
    let checks = e.cfg.monitors;
    let cur = e.current;
    e.mon.publishes += 1;
    // re-publication of a live region (stream re-arm): the owner re-initialises it
    let vc = e.tasks[cur].vc;
    let mut republish = false;
    for r in e.mon.regions.iter() {
        if r.live && r.sig.0 == sig {
            republish = true;
        }
    }
    if republish && checks {
        owner_write_region(e, sig, "re-publish");
    }
    let m = &mut e.mon;
    // address reuse: whatever was recorded for these bytes belongs to an earlier object
    m.regions.retain(|r| !(r.overlaps(sig, sig_len) || r.overlaps(slot, slot_len)));
    let lo_hi = [(sig, sig_len), (slot, slot_len)];
    m.locs.retain(|a, _| !lo_hi.iter().any(|(lo, len)| *len > 0 && *a >= *lo && *a < *lo + *len));
    m.atomics.retain(|a, _| !(*a >= sig && *a < sig + sig_len));
    m.n_regions += 1;
    let ord = m.n_regions;
    m.regions.push(Region {
        sig: (sig, sig_len),
        slot: (slot, slot_len),
        owner: cur as u8,
        pub_epoch: vc.0[cur],
        live: true,
        ord,
    });
    if m.regions.len() > 64 {
        // forget the oldest dead regions
        if let Some(p) = m.regions.iter().position(|r| !r.live) {
            m.regions.remove(p);
        }
    }
    e.log(0x9000_0000_0000_0000 ^ ord as u64);
}

fn owner_write_region(e: &mut crate::exec::Exec, sig: usize, site: &'static str) {
    let cur = e.current;
    let Some(r) = e.mon.regions.iter().find(|r| r.live && r.sig.0 == sig).cloned() else { return };
    let vc = e.tasks[cur].vc;
    // collect every unordered access, then report the one with the smallest (site, kind): the choice must
    // not depend on hash-map iteration order (addresses differ from process to process)
    let mut bad: Vec<(&'static str, &'static str, usize)> = Vec::new();
    for (a, l) in e.mon.locs.iter() {
        if !r.contains(*a) {
            continue;
        }
        let wt = l.w_task as usize;
        if wt != cur && l.w_epoch > vc.0[wt] {
            bad.push((l.w_site, "write-write", wt));
        }
        for u in 0..MAXT {
            if u != cur && l.reads[u] > vc.0[u] {
                bad.push((l.r_sites[u], "read-write", u));
            }
        }
    }
    bad.sort();
    if let Some((s, k, t)) = bad.first().copied() {
        race(e, k, s, t, site);
    }
}

/// The owner's operation is over (it returns, or the future is dropped).
pub fn retire(sig: usize) {
    let Some(e) = ex() else { return };
    if e.abort.is_some() || !e.mon.regions.iter().any(|r| r.live && r.sig.0 == sig) {
        return;
    }
    e.mon.retires += 1;
    if !e.cfg.monitors {
        let m = &mut e.mon;
        let r = m.regions.iter_mut().find(|r| r.live && r.sig.0 == sig).unwrap();
        r.live = false;
        return;
    }
    // (1) the channel must not still list the waiter. The REAL wait list is read (H9), not a mirror; if another task
    // is inside the channel's critical section right now the list is in flux (a tear-down or a drain walks it and
    // releases waiters one by one): the verdict is taken when that critical section ends.
    if let Some((chan, lock)) = listed_really(e, sig) {
        let ord = e.mon.regions.iter().find(|r| r.live && r.sig.0 == sig).map(|r| r.ord).unwrap_or(0);
        let cur = e.current;
        let held_by_other = e.mon.cs_owner.iter().any(|(l, o, _)| *l == lock && o.map_or(false, |t| t != cur));
        if held_by_other {
            e.mon.deferred.push((lock, chan, sig, ord));
        } else {
            violation(
                "life/listed-at-retire",
                format!("waiter region #{} is retired while the channel's wait list still refers to it", ord),
            );
        }
    }
    // (3) every peer access must be ordered before the owner's return
    owner_write_region(e, sig, "owner-returns");
    let m = &mut e.mon;
    let r = m.regions.iter_mut().find(|r| r.live && r.sig.0 == sig).unwrap();
    r.live = false;
    let rc = r.clone();
    m.locs.retain(|a, _| !rc.contains(*a));
    m.atomics.retain(|a, _| !(*a >= rc.sig.0 && *a < rc.sig.0 + rc.sig.1));
    let ord = rc.ord;
    e.log(0xA000_0000_0000_0000 ^ ord as u64);
}

pub struct PeerGuard;
impl Drop for PeerGuard {
    fn drop(&mut self) {
        if let Some(e) = ex() {
            let cur = e.current;
            if e.tasks[cur].peer_depth > 0 {
                e.tasks[cur].peer_depth -= 1;
            }
        }
    }
}
/// Entering code that works on another operation's waiter through a raw pointer.
pub fn peer(_sig: usize) -> PeerGuard {
    if let Some(e) = ex() {
        let cur = e.current;
        e.tasks[cur].peer_depth += 1;
    }
    PeerGuard
}

/// H9: a channel makes its real wait list readable (idempotent; called whenever the channel lock is taken).
pub fn wl_register(chan: usize, lock: usize, lister: fn(usize) -> Vec<usize>) {
    let Some(e) = ex() else { return };
    if !e.mon.chans.iter().any(|c| c.0 == chan) {
        e.mon.chans.push((chan, lock, lister));
    }
}

/// the channel's memory is going away
pub fn wl_unregister(chan: usize) {
    if let Some(e) = ex() {
        e.mon.chans.retain(|c| c.0 != chan);
        e.mon.deferred.retain(|d| d.1 != chan);
    }
}

/// Is this waiter in the wait list of a registered channel right now? All tasks of a run share one OS thread and are
/// switched only at scheduling points, none of which lies inside an operation on the list: the read is exact.
fn listed_really(e: &crate::exec::Exec, sig: usize) -> Option<(usize, usize)> {
    for (chan, lock, lister) in e.mon.chans.iter() {
        if e.mon.teardown.contains(chan) {
            continue;
        }
        if lister(*chan).contains(&sig) {
            return Some((*chan, *lock));
        }
    }
    None
}

/// Exact content of a channel's wait list after a ChannelInternal method.
pub fn wl_set(chan: usize, addrs: &mut dyn Iterator<Item = usize>) {
    let Some(e) = ex() else { return };
    let m = &mut e.mon;
    let slot = match m.waitlists.iter().position(|(c, _)| *c == chan) {
        Some(p) => p,
        None => {
            m.waitlists.push((chan, Vec::new()));
            m.waitlists.len() - 1
        }
    };
    let l = &mut m.waitlists[slot].1;
    l.clear();
    l.extend(addrs);
    m.teardown.retain(|c| *c != chan);
}

/// terminate_signals started on this channel: until it returns (wl_set), listed waiters may already
/// have been released and gone (they are never touched again, the list is cleared at the end)
pub fn wl_teardown(chan: usize) {
    if let Some(e) = ex() {
        if !e.mon.teardown.contains(&chan) {
            e.mon.teardown.push(chan);
        }
    }
}

/// The caller is about to wait WITHOUT a deadline and without returning to its executor (the untimed
/// `wait()` of a timed operation whose cancellation failed, or the synchronous wait inside a future's
/// `poll` / `drop`) for a peer that is assumed to have claimed this waiter. That assumption is what
/// makes the wait bounded: a claimed waiter is no longer in the wait list and its claimant finishes the
/// hand-off without needing anybody else. If the waiter is still listed nobody has claimed it, and the
/// operation now depends on a peer that may never come (a timed call can no longer time out, a `poll`
/// blocks its executor thread instead of returning `Pending`).
pub fn unbounded_wait(sig: usize) {
    let Some(e) = ex() else { return };
    if e.abort.is_some() {
        return;
    }
    let listed = listed_really(e, sig).is_some();
    if listed {
        violation(
            "wait/unclaimed",
            "an operation entered its unbounded synchronous wait (after a failed cancellation, or inside poll/drop of a future) although its waiter is still in the channel's wait list: no peer has claimed it".to_string(),
        );
    }
}

pub fn wl_len(chan_index: usize) -> usize {
    ex().and_then(|e| e.mon.waitlists.get(chan_index).map(|(_, l)| l.len())).unwrap_or(0)
}

pub fn cs_enter(lock: usize) {
    let Some(e) = ex() else { return };
    let cur = e.current;
    e.tasks[cur].in_cs += 1;
    let stamp = e.stamp();
    e.mon.cs_enters += 1;
    let m = &mut e.mon;
    let p = match m.cs_owner.iter().position(|(l, _, _)| *l == lock) {
        Some(p) => p,
        None => {
            m.cs_owner.push((lock, None, 0));
            m.cs_owner.len() - 1
        }
    };
    if let Some(o) = m.cs_owner[p].1 {
        if o != cur && e.cfg.monitors && e.abort.is_none() {
            violation(
                "cs/overlap",
                format!("task {} entered the critical section while task {} is inside", cur, o),
            );
        }
    }
    m.cs_owner[p].1 = Some(cur);
    m.cs_owner[p].2 = stamp;
    if e.cfg.monitors && e.abort.is_none() {
        // consecutive critical sections must be happens-before ordered
        let vc = e.tasks[cur].vc;
        let key = lock ^ 0x1;
        if let Some(l) = e.mon.locs.get(&key) {
            let wt = l.w_task as usize;
            if wt != cur && l.w_epoch > vc.0[wt] {
                violation(
                    "hb/race/lock-handoff",
                    format!(
                        "task {} entered the critical section without a happens-before edge from task {}'s unlock",
                        cur, wt
                    ),
                );
            }
        }
    }
    // F3: freeze the task inside the critical section
    if e.cfg.p_cs_freeze > 0 && e.tasks.len() > 1 {
        if e.chance(e.cfg.p_cs_freeze) {
            let k = 1 + e.draw(e.cfg.stall_max.max(1) as u64);
            e.tasks[cur].stall_until = e.steps + k;
            e.stats.cs_freezes += 1;
        }
    }
}

pub fn cs_leave(lock: usize) {
    let Some(e) = ex() else { return };
    // waiters retired while this critical section was open: still listed now that it ends?
    if e.abort.is_none() && e.mon.deferred.iter().any(|d| d.0 == lock) {
        let mine: Vec<(usize, usize, usize, u32)> = e.mon.deferred.iter().filter(|d| d.0 == lock).cloned().collect();
        e.mon.deferred.retain(|d| d.0 != lock);
        for (_, chan, sig, ord) in mine {
            let still = e.mon.chans.iter().find(|c| c.0 == chan).map_or(false, |c| !e.mon.teardown.contains(&chan) && (c.2)(chan).contains(&sig));
            if still {
                violation(
                    "life/listed-at-retire",
                    format!("waiter region #{} was retired during a critical section of another task and is still in the channel's wait list when that critical section ends", ord),
                );
            }
        }
    }
    let cur = e.current;
    if e.tasks[cur].in_cs > 0 {
        e.tasks[cur].in_cs -= 1;
    }
    e.stamp();
    let vc = e.tasks[cur].vc;
    let m = &mut e.mon;
    if let Some(p) = m.cs_owner.iter().position(|(l, _, _)| *l == lock) {
        if m.cs_owner[p].1 == Some(cur) {
            m.cs_owner[p].1 = None;
        }
    }
    if e.cfg.monitors {
        let key = lock ^ 0x1;
        let l = m.locs.entry(key).or_insert_with(|| Loc {
            w_task: cur as u8,
            w_epoch: 0,
            w_site: "unlock",
            reads: [0; MAXT],
            r_sites: [""; MAXT],
        });
        l.w_task = cur as u8;
        l.w_epoch = vc.0[cur];
    }
}

/// which task is inside the critical section of lock #i (in order of first use)
pub fn cs_holder(i: usize) -> Option<usize> {
    ex().and_then(|e| e.mon.cs_owner.get(i).and_then(|x| x.1))
}

pub struct CsEnterOnDrop(pub usize);
impl Drop for CsEnterOnDrop {
    fn drop(&mut self) {
        cs_enter(self.0)
    }
}
