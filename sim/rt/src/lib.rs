//! kanal_verif_rt: the seam implementations kanal is compiled against under
//! `--cfg kanal_verif`, the deterministic execution engine, and the in-run
//! monitors. With the cfg off none of this exists for kanal.

pub mod exec;
mod facade;
pub mod mon;
pub mod probe;

pub use facade::{core, std};

pub use exec::{
    advance_clock, current, draw, join, last_park_spurious, now_ns, park, park_steps, peek_ns, set_ctx, spawn, stamp,
    steps, switch, take_probe_log, unpark, violation, yield_now,
};
pub use mon::{cs_enter, cs_leave, mem_read, mem_write, peer, publish, retire, unbounded_wait, wl_register, wl_set, wl_teardown, wl_unregister, CsEnterOnDrop};
pub use probe::probe;

/// H2: parallelism as configured for this run (bypasses kanal's process-global cache)
pub fn parallelism() -> Option<usize> {
    exec::ex().map(|e| e.cfg.parallelism)
}

/// H3: per-run spin budget for the three fixed-count spin loops in signal.rs
pub struct SpinKnob {
    left: u32,
}
impl SpinKnob {
    #[inline]
    pub fn new(site: usize) -> SpinKnob {
        let b = exec::ex().map(|e| e.cfg.spin[site]).unwrap_or(u16::MAX);
        SpinKnob { left: if b == u16::MAX { u32::MAX } else { b as u32 } }
    }
    /// true once the per-run budget of iterations is used up
    #[inline]
    pub fn exhausted(&mut self) -> bool {
        if self.left == 0 {
            true
        } else {
            if self.left != u32::MAX {
                self.left -= 1;
            }
            false
        }
    }
}
