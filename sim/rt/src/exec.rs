//! The deterministic execution engine: every task of a run is a stackful
//! coroutine on ONE OS thread; which task runs next is decided at every
//! scheduling point by a seeded scheduler (or by a recorded script when
//! replaying). One run = one `Exec`, installed in a thread-local for its
//! duration.

use corosensei::stack::DefaultStack;
use corosensei::{Coroutine, CoroutineResult, Yielder};
use std::cell::{Cell, RefCell};

use crate::mon::Monitors;

pub const MAXT: usize = 8;
const STACK_SIZE: usize = 256 * 1024;

// ------------------------------------------------------------------ vector clocks

#[derive(Clone, Copy, PartialEq, Eq, Debug)]
pub struct VC(pub [u32; MAXT]);
impl Default for VC {
    fn default() -> Self {
        VC([0; MAXT])
    }
}
impl VC {
    #[inline]
    pub fn join(&mut self, o: &VC) {
        for i in 0..MAXT {
            if o.0[i] > self.0[i] {
                self.0[i] = o.0[i];
            }
        }
    }
}

// ------------------------------------------------------------------ PRNG

#[derive(Clone)]
pub struct SplitMix(pub u64);
impl SplitMix {
    #[inline]
    pub fn next(&mut self) -> u64 {
        self.0 = self.0.wrapping_add(0x9E3779B97F4A7C15);
        let mut z = self.0;
        z = (z ^ (z >> 30)).wrapping_mul(0xBF58476D1CE4E5B9);
        z = (z ^ (z >> 27)).wrapping_mul(0x94D049BB133111EB);
        z ^ (z >> 31)
    }
    #[inline]
    pub fn below(&mut self, n: u64) -> u64 {
        if n <= 1 {
            0
        } else {
            self.next() % n
        }
    }
}

pub fn mix(a: u64, b: u64) -> u64 {
    let mut s = SplitMix(a ^ b.wrapping_mul(0xD6E8FEB86659FD93));
    s.next()
}

// ------------------------------------------------------------------ configuration

#[derive(Clone, Copy, Debug, PartialEq)]
pub enum Policy {
    Uniform,
    /// keep running the current task with probability n/8
    Sticky(u8),
    /// PCT-like: random priorities, `d` priority change points
    Pct(u8),
}

#[derive(Clone, Copy, Debug, PartialEq)]
pub enum TimePolicy {
    /// every clock read advances 1 us
    Tick,
    /// a clock read advances 0 or 1..20 us
    Coarse,
    /// like Tick, but 1/16 of reads jump forward by up to `max_ns`
    Jumpy(u64),
}

#[derive(Clone, Debug)]
pub struct RunCfg {
    pub policy: Policy,
    pub time: TimePolicy,
    /// probability (x/1024, per decision) that a runnable task is stalled
    pub p_stall: u16,
    pub stall_max: u32,
    /// probability (x/1024, per critical-section entry) that the entering task is frozen inside
    pub p_cs_freeze: u16,
    /// probability (x/1024, per decision) of a spurious return from park
    pub p_spurious_park: u16,
    /// spin budget per site (0: wait 256, 1: wait_timeout 32, 2: async_blocking_wait 32); u16::MAX = as written
    pub spin: [u16; 3],
    pub parallelism: usize,
    pub max_steps: u64,
    pub est_len: u32,
    /// happens-before / lifetime monitors on
    pub monitors: bool,
    /// enumerated freeze: (task, after this many own decisions, for this many global decisions)
    pub freeze: Option<(usize, u64, u64)>,
}

impl Default for RunCfg {
    fn default() -> Self {
        RunCfg {
            policy: Policy::Uniform,
            time: TimePolicy::Tick,
            p_stall: 0,
            stall_max: 0,
            p_cs_freeze: 0,
            p_spurious_park: 0,
            spin: [u16::MAX; 3],
            parallelism: 4,
            max_steps: 400_000,
            est_len: 200,
            monitors: true,
            freeze: None,
        }
    }
}

/// Where decisions come from.
#[derive(Clone, Debug)]
pub enum Source {
    Rng(u64),
    /// recorded task choices and recorded drawn values; `strict`: any
    /// inapplicable / missing / left-over decision is a divergence.
    Script { ts: Vec<u8>, ds: Vec<u64>, strict: bool },
}

// ------------------------------------------------------------------ tasks

/// decisions a task may take without yielding before the starvation guard preempts it
const QUANTUM: u32 = 3000;

#[derive(Clone, Copy, PartialEq, Eq, Debug)]
pub enum TState {
    Runnable,
    Parked,
    /// parked until unparked or until `steps >= wake_at`
    ParkedUntil(u64),
    /// parked until unparked or until the simulated clock reaches this instant (`thread::park_timeout`)
    ParkedUntilNs(u64),
    Joining(usize),
    Finished,
}

type Coro = Coroutine<(), (), (), DefaultStack>;

pub struct Task {
    coro: Option<Coro>,
    yielder: *const Yielder<(), ()>,
    pub state: TState,
    pub token: bool,
    pub token_vc: VC,
    pub vc: VC,
    pub pending_acq: VC,
    pub fence_rel: VC,
    pub stall_until: u64,
    pub prio: u64,
    pub in_cs: u32,
    pub peer_depth: u32,
    pub last_park_spurious: bool,
    pub probe_log: Vec<(u32, u64)>,
    /// harness-defined context tag (current op index) used for attribution
    pub ctx: u64,
    /// scheduling decisions taken by this task itself
    pub own_steps: u64,
    /// decisions of its own since the task last yielded, slept or blocked (starvation guard)
    pub since_yield: u32,
}

#[derive(Clone, Debug, PartialEq)]
pub enum Abort {
    /// no runnable task, some unfinished
    Deadlock,
    /// decision bound exceeded
    StepBound,
    Panic(String),
    /// a monitor (hb/life/cs) or the harness flagged a violation: (signature, detail)
    Violation(String, String),
    /// replay script not applicable
    Diverged(String),
}

#[derive(Default, Clone, Debug)]
pub struct Stats {
    pub steps: u64,
    pub switches: u64,
    pub stalls: u64,
    pub cs_freezes: u64,
    pub spurious_parks: u64,
    pub clock_jumps: u64,
    pub parks: u64,
    pub unparks: u64,
    pub timed_wakes: u64,
    pub draws: u64,
    pub weak_cas_failures: u64,
}

pub struct Exec {
    pub tasks: Vec<Box<Task>>,
    pub current: usize,
    next_task: usize,
    pub cfg: RunCfg,
    rng: SplitMix,
    script: Option<(Vec<u8>, usize, Vec<u64>, usize, bool)>,
    pub ts: Vec<u8>,
    /// consecutive fabricated (tolerant-replay) spurious wake-ups since the last ordinary choice
    tolerant_spurious_streak: u32,
    pub ds: Vec<u64>,
    pub steps: u64,
    pub events: u64,
    pub clock_ns: u64,
    pub abort: Option<Abort>,
    pub stats: Stats,
    pub mon: Monitors,
    pub probes: Vec<u64>,
    low_prio: u64,
    change_points: Vec<u64>,
    /// hash over the decision stream and monitor events (determinism proof)
    pub log_hash: u64,
    pub task_names: Vec<String>,
    pub progress: u64,
    progress_at_last_yield: u64,
    idle_yields: u32,
    idle_reads: u32,
    progress_at_last_read: u64,
}

thread_local! {
    static EXEC: Cell<*mut Exec> = const { Cell::new(std::ptr::null_mut()) };
    static STACKS: RefCell<Vec<DefaultStack>> = const { RefCell::new(Vec::new()) };
    pub static LAST_PANIC: RefCell<String> = const { RefCell::new(String::new()) };
}

#[inline]
pub fn ex() -> Option<&'static mut Exec> {
    let p = EXEC.with(|e| e.get());
    if p.is_null() {
        None
    } else {
        Some(unsafe { &mut *p })
    }
}

#[inline]
pub fn active() -> bool {
    !EXEC.with(|e| e.get()).is_null()
}

pub struct Outcome {
    pub abort: Option<Abort>,
    pub ts: Vec<u8>,
    pub ds: Vec<u64>,
    pub stats: Stats,
    pub probes: Vec<u64>,
    pub clock_ns: u64,
    pub log_hash: u64,
    pub n_tasks: usize,
    pub hb_accesses: u64,
    pub hb_cross: u64,
    /// description of tasks that had not finished when the run ended
    pub stuck: Vec<(usize, String, String)>,
}

pub fn install_silent_panic_hook() {
    std::panic::set_hook(Box::new(|info| {
        let msg = if let Some(s) = info.payload().downcast_ref::<&str>() {
            s.to_string()
        } else if let Some(s) = info.payload().downcast_ref::<String>() {
            s.clone()
        } else {
            "<non-string panic>".to_string()
        };
        let loc = info
            .location()
            .map(|l| {
                let f = l.file();
                let f = f.rsplit('/').next().unwrap_or(f);
                format!("{}:{}", f, l.line())
            })
            .unwrap_or_default();
        LAST_PANIC.with(|p| *p.borrow_mut() = format!("{} @ {}", msg, loc));
    }));
}

fn take_stack() -> DefaultStack {
    STACKS
        .with(|s| s.borrow_mut().pop())
        .unwrap_or_else(|| DefaultStack::new(STACK_SIZE).expect("stack"))
}

impl Exec {
    fn new(cfg: RunCfg, src: Source) -> Exec {
        restore_statics();
        let (rng, script) = match src {
            Source::Rng(seed) => (SplitMix(seed), None),
            Source::Script { ts, ds, strict } => (SplitMix(0), Some((ts, 0, ds, 0, strict))),
        };
        let mut e = Exec {
            tasks: Vec::new(),
            current: 0,
            next_task: 0,
            cfg,
            rng,
            script,
            ts: Vec::new(),
            tolerant_spurious_streak: 0,
            ds: Vec::new(),
            steps: 0,
            events: 0,
            clock_ns: 1_000_000,
            abort: None,
            stats: Stats::default(),
            mon: Monitors::default(),
            probes: vec![0; crate::probe::N_PROBES],
            low_prio: 1 << 20,
            change_points: Vec::new(),
            log_hash: 0xcbf29ce484222325,
            task_names: Vec::new(),
            progress: 0,
            progress_at_last_yield: 0,
            idle_yields: 0,
            idle_reads: 0,
            progress_at_last_read: 0,
        };
        if let Policy::Pct(d) = e.cfg.policy {
            if e.script.is_none() {
                for _ in 0..d {
                    let p = 1 + e.rng.below(e.cfg.est_len.max(2) as u64);
                    e.change_points.push(p);
                }
            }
        }
        e
    }

    #[inline]
    pub fn log(&mut self, x: u64) {
        self.log_hash = (self.log_hash ^ x).wrapping_mul(0x100000001b3);
    }

    #[inline]
    pub fn stamp(&mut self) -> u64 {
        self.events += 1;
        self.events
    }

    /// A drawn value in 0..bound (bound 0 or 1 => 0). Recorded.
    pub fn draw(&mut self, bound: u64) -> u64 {
        self.stats.draws += 1;
        let v = if let Some((_, _, ds, di, strict)) = &mut self.script {
            if *di < ds.len() {
                let v = ds[*di];
                *di += 1;
                if bound > 1 && v >= bound {
                    if *strict {
                        self.abort_now(Abort::Diverged(format!("draw {} out of bound {}", v, bound)));
                    }
                    0
                } else if bound <= 1 {
                    0
                } else {
                    v
                }
            } else {
                if *strict {
                    self.abort_now(Abort::Diverged("draw stream exhausted".into()));
                }
                0
            }
        } else {
            self.rng.below(bound)
        };
        self.ds.push(v);
        self.log(0xD000_0000_0000_0000 ^ v);
        v
    }

    /// chance x/1024, recorded as a draw only when p > 0
    pub fn chance(&mut self, p: u16) -> bool {
        if p == 0 {
            return false;
        }
        self.draw(1024) < p as u64
    }

    fn abort_now(&mut self, a: Abort) {
        if self.abort.is_none() {
            self.abort = Some(a);
        }
    }

    fn spawn_task(&mut self, f: Box<dyn FnOnce() + 'static>, name: String) -> usize {
        let id = self.tasks.len();
        assert!(id < MAXT, "too many tasks");
        let mut vc = VC::default();
        if id > 0 {
            let cur = self.current;
            vc = self.tasks[cur].vc;
            // fork is a release operation of the parent
            self.tasks[cur].vc.0[cur] += 1;
        }
        vc.0[id] = 1;
        let prio = if self.script.is_none() {
            (1 << 32) + (self.rng.next() >> 16)
        } else {
            0
        };
        let mut t = Box::new(Task {
            coro: None,
            yielder: std::ptr::null(),
            state: TState::Runnable,
            token: false,
            token_vc: VC::default(),
            vc,
            pending_acq: VC::default(),
            fence_rel: VC::default(),
            stall_until: 0,
            prio,
            in_cs: 0,
            peer_depth: 0,
            last_park_spurious: false,
            probe_log: Vec::new(),
            ctx: 0,
            own_steps: 0,
            since_yield: 0,
        });
        let tp: *mut Task = &mut *t;
        let coro = Coroutine::with_stack(take_stack(), move |y: &Yielder<(), ()>, ()| {
            unsafe {
                (*tp).yielder = y;
            }
            f();
        });
        t.coro = Some(coro);
        self.tasks.push(t);
        self.task_names.push(name);
        id
    }

    fn candidates(&mut self, exclude_current: bool) -> Vec<usize> {
        let steps = self.steps;
        let mut c = Vec::with_capacity(self.tasks.len());
        for (i, t) in self.tasks.iter_mut().enumerate() {
            if let TState::ParkedUntil(w) = t.state {
                if steps >= w {
                    t.state = TState::Runnable;
                    t.last_park_spurious = true;
                    self.stats.timed_wakes += 1;
                }
            }
            if let TState::ParkedUntilNs(w) = t.state {
                if self.clock_ns >= w {
                    t.state = TState::Runnable;
                    t.last_park_spurious = true;
                    self.stats.timed_wakes += 1;
                }
            }
            if t.state == TState::Runnable && !(exclude_current && i == self.current) {
                c.push(i);
            }
        }
        c
    }

    /// Decide which task runs next. `yielding`: the current task asked to let
    /// others run. `must_leave`: the current task cannot continue (blocked or
    /// finished). Returns None on deadlock.
    fn choose(&mut self, yielding: bool, must_leave: bool) -> Option<usize> {
        let cur = self.current;
        // a task that must leave is blocked or finished and is excluded by its state; if its timed park
        // has already expired it is runnable again and a legitimate candidate
        let mut cands = self.candidates(false);
        if cands.is_empty() {
            // fast-forward to the earliest timed park, if any
            let mut best: Option<(u64, usize)> = None;
            for (i, t) in self.tasks.iter().enumerate() {
                if let TState::ParkedUntil(w) = t.state {
                    if best.map_or(true, |(bw, _)| w < bw) {
                        best = Some((w, i));
                    }
                }
            }
            // nobody can run and no step-based timer is pending: discrete-event time - jump the clock to the earliest
            // deadline a task is parked for
            let mut best_ns: Option<(u64, usize)> = None;
            if best.is_none() {
                for (i, t) in self.tasks.iter().enumerate() {
                    if let TState::ParkedUntilNs(w) = t.state {
                        if best_ns.map_or(true, |(bw, _)| w < bw) {
                            best_ns = Some((w, i));
                        }
                    }
                }
            }
            if let Some((_, i)) = best {
                self.tasks[i].state = TState::Runnable;
                self.tasks[i].last_park_spurious = true;
                self.stats.timed_wakes += 1;
                cands.push(i);
            } else if let Some((w, i)) = best_ns {
                if w > self.clock_ns {
                    self.clock_ns = w;
                    self.stats.clock_jumps += 1;
                }
                self.tasks[i].state = TState::Runnable;
                self.tasks[i].last_park_spurious = true;
                self.stats.timed_wakes += 1;
                cands.push(i);
            } else {
                // nothing can run. Under a script the only way on is a recorded spurious wake-up.
                let scripted_spurious = match &self.script {
                    Some((ts, ti, _, _, _)) if *ti < ts.len() => {
                        let w = ts[*ti] as usize;
                        w < self.tasks.len() && self.tasks[w].state == TState::Parked && !self.tasks[w].token
                    }
                    _ => false,
                };
                if !scripted_spurious {
                    return None;
                }
            }
        }

        // ---------------- scripted choice
        if let Some((ts, ti, _, _, strict)) = &mut self.script {
            let strict = *strict;
            let pick = if *ti < ts.len() {
                let want = ts[*ti] as usize;
                *ti += 1;
                Some(want)
            } else {
                None
            };
            let mut chosen = None;
            // an exact replay takes the recorded choice; a tolerant one (the shrinker trying an edited schedule) obeys
            // the rules every seeded schedule obeys: a task that yields, or that has kept the processor for a whole
            // quantum without yielding, leaves it if anybody else can run
            let hog_s = !must_leave && self.tasks[cur].since_yield > QUANTUM;
            let must_yield_s = !strict && (yielding || hog_s) && cands.iter().any(|&c| c != cur);
            if hog_s && !strict {
                self.tasks[cur].since_yield = 0;
            }
            let pick = if must_yield_s && pick == Some(cur) { None } else { pick };
            let yielding = yielding || must_yield_s;
            if let Some(w) = pick {
                if cands.contains(&w) {
                    chosen = Some(w);
                    self.tolerant_spurious_streak = 0;
                } else if w < self.tasks.len()
                    && self.tasks[w].state == TState::Parked
                    && !self.tasks[w].token
                    // an exact replay takes every recorded spurious wake-up; a tolerant one (the shrinker trying an
                    // edited schedule) must not turn "continue the current task" into an endless series of spurious
                    // wake-ups of a parked task, which would starve everybody else and fake a step-bound hang: the
                    // fault must have been enabled in the run and at most two may follow each other
                    && (strict || (self.cfg.p_spurious_park > 0 && self.tolerant_spurious_streak < 2))
                {
                    // recorded spurious wake-up
                    self.tasks[w].state = TState::Runnable;
                    self.tasks[w].last_park_spurious = true;
                    self.stats.spurious_parks += 1;
                    self.tolerant_spurious_streak += 1;
                    chosen = Some(w);
                }
            }
            if chosen.is_none() {
                if strict {
                    self.abort_now(Abort::Diverged(format!(
                        "task choice {:?} not applicable at step {}",
                        pick, self.steps
                    )));
                }
                if cands.is_empty() {
                    return None;
                }
                chosen = Some(if !must_leave && !yielding && cands.contains(&cur) {
                    cur
                } else if yielding && cands.len() > 1 {
                    *cands.iter().find(|&&c| c != cur).unwrap()
                } else {
                    cands[0]
                });
            }
            let c = chosen.unwrap();
            self.ts.push(c as u8);
            self.log(0x7000_0000_0000_0000 ^ c as u64);
            return Some(c);
        }

        // ---------------- seeded choice
        // starvation guard: every policy is fair in the limit. A task that has taken a whole quantum of decisions
        // without yielding, sleeping or blocking although another task could run (a loop in the system under test
        // that never yields: a test-and-set spin lock, a busy wait, a future that wakes itself) is preempted as if it
        // had yielded - whatever happened in between (stalls and spurious wake-ups of third tasks do not reset it)
        let hog = !must_leave && !yielding && self.tasks[cur].since_yield > QUANTUM && cands.iter().any(|&c| c != cur);
        if hog {
            self.tasks[cur].since_yield = 0;
        }
        let yielding = yielding || hog;
        // F4: spurious wake-up of a parked task
        if self.cfg.p_spurious_park > 0 {
            let parked: Vec<usize> = self
                .tasks
                .iter()
                .enumerate()
                .filter(|(_, t)| t.state == TState::Parked && !t.token)
                .map(|(i, _)| i)
                .collect();
            if !parked.is_empty() && self.rng.below(1024) < self.cfg.p_spurious_park as u64 {
                let w = parked[self.rng.below(parked.len() as u64) as usize];
                self.tasks[w].state = TState::Runnable;
                self.tasks[w].last_park_spurious = true;
                self.stats.spurious_parks += 1;
                self.ts.push(w as u8);
                self.log(0x7000_0000_0000_0000 ^ w as u64);
                return Some(w);
            }
        }
        // F2: stall a random candidate for a while
        if self.cfg.p_stall > 0 && cands.len() > 1 && self.rng.below(1024) < self.cfg.p_stall as u64 {
            let v = cands[self.rng.below(cands.len() as u64) as usize];
            let k = 1 + self.rng.below(self.cfg.stall_max.max(1) as u64);
            self.tasks[v].stall_until = self.steps + k;
            self.stats.stalls += 1;
        }
        if yielding && cands.len() > 1 {
            cands.retain(|&c| c != cur);
        }
        let steps = self.steps;
        let awake: Vec<usize> = cands
            .iter()
            .copied()
            .filter(|&c| self.tasks[c].stall_until <= steps)
            .collect();
        if !awake.is_empty() {
            cands = awake;
        }
        let c = match self.cfg.policy {
            Policy::Uniform => cands[self.rng.below(cands.len() as u64) as usize],
            Policy::Sticky(q) => {
                if !yielding && !must_leave && cands.contains(&cur) && self.rng.below(8) < q as u64 {
                    cur
                } else {
                    cands[self.rng.below(cands.len() as u64) as usize]
                }
            }
            Policy::Pct(_) => {
                if (yielding || self.change_points.contains(&self.steps)) && !must_leave {
                    self.low_prio -= 1;
                    self.tasks[cur].prio = self.low_prio;
                }
                let mut best = cands[0];
                for &c in &cands {
                    if self.tasks[c].prio > self.tasks[best].prio {
                        best = c;
                    }
                }
                best
            }
        };
        self.ts.push(c as u8);
        self.log(0x7000_0000_0000_0000 ^ c as u64);
        Some(c)
    }

    /// bookkeeping for the current task's own decision count, and the enumerated freeze (F3/F12):
    /// task `t` is stalled for `dur` decisions once it has taken `after` decisions of its own
    #[inline]
    fn own_step(&mut self) {
        let cur = self.current;
        self.tasks[cur].own_steps += 1;
        self.tasks[cur].since_yield = self.tasks[cur].since_yield.saturating_add(1);
        if let Some((t, after, dur)) = self.cfg.freeze {
            if t == cur && self.tasks[cur].own_steps == after {
                self.tasks[cur].stall_until = self.steps + dur;
                self.stats.stalls += 1;
                if self.tasks[cur].in_cs > 0 {
                    self.stats.cs_freezes += 1;
                }
            }
        }
    }

    fn suspend_current(&mut self) {
        let y = self.tasks[self.current].yielder;
        debug_assert!(!y.is_null());
        unsafe { (*y).suspend(()) };
    }
}

// ------------------------------------------------------------------ API used from inside tasks

/// A scheduling point. `yielding` = the caller wants others to run first.
pub fn switch(yielding: bool) {
    let Some(e) = ex() else { return };
    if e.abort.is_some() {
        e.suspend_current();
        unreachable!("resumed after abort");
    }
    e.steps += 1;
    e.events += 1;
    e.stats.steps += 1;
    e.own_step();
    if yielding {
        let cur = e.current;
        e.tasks[cur].since_yield = 0;
    }
    if e.steps > e.cfg.max_steps {
        e.abort_now(Abort::StepBound);
        e.suspend_current();
        unreachable!();
    }
    match e.choose(yielding, false) {
        Some(n) => {
            if e.abort.is_some() {
                e.suspend_current();
                unreachable!();
            }
            if n != e.current {
                e.stats.switches += 1;
                e.next_task = n;
                e.suspend_current();
            }
        }
        None => unreachable!("current task is runnable"),
    }
}

/// Block the current task (its state has been set by the caller) and run others.
fn block_current() {
    let e = ex().unwrap();
    e.steps += 1;
    e.events += 1;
    e.stats.steps += 1;
    e.own_step();
    {
        let cur = e.current;
        e.tasks[cur].since_yield = 0;
    }
    if e.steps > e.cfg.max_steps {
        e.abort_now(Abort::StepBound);
        e.suspend_current();
        unreachable!();
    }
    match e.choose(false, true) {
        Some(n) => {
            if n != e.current {
                e.stats.switches += 1;
            }
            e.next_task = n;
            // n may equal current when a timed park was fast-forwarded or a
            // spurious wake-up was chosen for ourselves
            if n != e.current || e.abort.is_some() {
                e.suspend_current();
            }
        }
        None => {
            e.abort_now(Abort::Deadlock);
            e.suspend_current();
            unreachable!();
        }
    }
    if let Some(e) = ex() {
        if e.abort.is_some() {
            e.suspend_current();
            unreachable!();
        }
    }
}

/// Report a violation from a monitor or from the harness and end the run at once.
pub fn violation(sig: &str, detail: String) -> ! {
    let e = ex().expect("violation outside a run");
    e.abort_now(Abort::Violation(sig.to_string(), detail));
    e.suspend_current();
    unreachable!("resumed after abort");
}

pub fn spawn<F: FnOnce() + 'static>(name: &str, f: F) -> usize {
    let e = ex().expect("spawn outside a run");
    let id = e.spawn_task(Box::new(f), name.to_string());
    e.stamp();
    switch(false);
    id
}

pub fn join(t: usize) {
    let e = ex().unwrap();
    switch(false);
    let e2 = ex().unwrap();
    if e2.tasks[t].state != TState::Finished {
        let cur = e2.current;
        e2.tasks[cur].state = TState::Joining(t);
        block_current();
    }
    let e3 = ex().unwrap();
    let cur = e3.current;
    let child_vc = e3.tasks[t].vc;
    e3.tasks[cur].vc.join(&child_vc);
    let _ = e;
}

pub fn current() -> usize {
    ex().map(|e| e.current).unwrap_or(0)
}

pub fn park() {
    dbg("park");
    let Some(e) = ex() else { return };
    switch(false);
    let cur = e.current;
    e.stats.parks += 1;
    if !e.tasks[cur].token {
        e.tasks[cur].state = TState::Parked;
        e.tasks[cur].last_park_spurious = false;
        block_current();
    }
    let e = ex().unwrap();
    let t = &mut e.tasks[cur];
    if t.token {
        t.token = false;
        let tv = t.token_vc;
        t.vc.join(&tv);
        t.last_park_spurious = false;
    }
}

/// `thread::park_timeout`: park until unparked or until the simulated clock has advanced by `ns`.
pub fn park_timeout_ns(ns: u64) {
    dbg("park_timeout");
    let Some(e) = ex() else { return };
    switch(false);
    let cur = e.current;
    e.stats.parks += 1;
    if !e.tasks[cur].token {
        e.tasks[cur].state = TState::ParkedUntilNs(e.clock_ns.saturating_add(ns.max(1)));
        e.tasks[cur].last_park_spurious = false;
        block_current();
    }
    let e = ex().unwrap();
    let t = &mut e.tasks[cur];
    if t.token {
        t.token = false;
        let tv = t.token_vc;
        t.vc.join(&tv);
        t.last_park_spurious = false;
    }
}

/// Park until unparked or until `k` more scheduling decisions have been taken.
/// Returns true if it was a real unpark.
pub fn park_steps(k: u64) -> bool {
    let Some(e) = ex() else { return false };
    switch(false);
    let cur = e.current;
    if !e.tasks[cur].token {
        e.tasks[cur].state = TState::ParkedUntil(e.steps + k);
        e.tasks[cur].last_park_spurious = false;
        block_current();
    }
    let e = ex().unwrap();
    let t = &mut e.tasks[cur];
    if t.token {
        t.token = false;
        let tv = t.token_vc;
        t.vc.join(&tv);
        true
    } else {
        false
    }
}

pub fn unpark(t: usize) {
    dbg(&format!("unpark t{}", t));
    let Some(e) = ex() else { return };
    switch(false);
    let cur = e.current;
    e.stats.unparks += 1;
    e.progress += 1;
    let myvc = e.tasks[cur].vc;
    let tt = &mut e.tasks[t];
    tt.token = true;
    tt.token_vc.join(&myvc);
    if matches!(tt.state, TState::Parked | TState::ParkedUntil(_) | TState::ParkedUntilNs(_)) {
        tt.state = TState::Runnable;
    }
    // unpark is a release operation
    e.tasks[cur].vc.0[cur] += 1;
    e.stamp();
}

/// A task changed shared state (atomic store / successful RMW, unpark, task end): time does not accelerate.
#[inline]
pub fn note_progress() {
    if let Some(e) = ex() {
        e.progress += 1;
    }
}

extern "C" {
    static __data_start: u8;
    static _end: u8;
}
/// does this address lie in the executable's static data (a `static` of the system under test, e.g. the seed of
/// kanal's pseudo-random back-off)?
#[inline]
fn is_static(addr: usize) -> bool {
    let (lo, hi) = unsafe { (&__data_start as *const u8 as usize, &_end as *const u8 as usize) };
    addr >= lo && addr < hi
}

thread_local! {
    /// shimmed atomics that live in static memory, with the value they had before their first modification in this
    /// process: restored at the start of every run, so that a run is a function of its case and decisions only
    static STATICS: std::cell::RefCell<Vec<(usize, usize, u64)>> = std::cell::RefCell::new(Vec::new());
}

/// A store / successful RMW on the shimmed atomic at `addr` (`size` bytes, value before the modification `old`).
/// Modifications of statics are not progress (a waiter that bumps a random-number seed on every iteration is still
/// only waiting) and are undone before the next run.
#[inline]
pub fn note_modification(addr: usize, size: usize, old: u64) {
    if is_static(addr) {
        STATICS.with(|s| {
            let mut s = s.borrow_mut();
            if !s.iter().any(|x| x.0 == addr) {
                s.push((addr, size, old));
            }
        });
        return;
    }
    note_progress();
}

/// undo every recorded modification of a static atomic (start of a run)
pub fn restore_statics() {
    STATICS.with(|s| {
        for (addr, size, old) in s.borrow().iter() {
            unsafe {
                match size {
                    1 => *(*addr as *mut u8) = *old as u8,
                    2 => *(*addr as *mut u16) = *old as u16,
                    4 => *(*addr as *mut u32) = *old as u32,
                    _ => *(*addr as *mut u64) = *old,
                }
            }
        }
    });
}

/// How far the clock moves at a yield / sleep: 200 ns normally; when tasks keep yielding without anybody
/// changing shared state (everybody is waiting for a deadline) the step doubles every four idle yields, up to
/// about a second - discrete-event time for long timeouts. Any monotone clock is a legal clock.
fn idle_step(e: &mut Exec) -> u64 {
    if e.progress == e.progress_at_last_yield {
        e.idle_yields += 1;
    } else {
        e.idle_yields = 0;
        e.progress_at_last_yield = e.progress;
    }
    let shift = (e.idle_yields / 4).min(22);
    if shift > 8 {
        e.stats.clock_jumps += 1;
    }
    200u64 << shift
}

fn dbg(what: &str) {
    if std::env::var_os("KSIM_TRACE").is_some() {
        if let Some(e) = ex() {
            if e.steps % 1000 < 40 || e.steps < 300 {
                eprintln!("[{}] t{} {}", e.steps, e.current, what);
            }
        }
    }
}

pub fn yield_now() {
    dbg("yield");
    if let Some(e) = ex() {
        let d = idle_step(e);
        e.clock_ns += d;
    }
    switch(true);
}

pub fn sleep_ns(ns: u64) {
    dbg("sleep");
    if let Some(e) = ex() {
        let d = idle_step(e);
        e.clock_ns += ns.max(1_000).max(d);
    }
    switch(true);
}

/// the simulated clock as read by the system under test (advances it)
pub fn now_ns() -> u64 {
    let Some(e) = ex() else { return 0 };
    // a task that keeps reading the clock while nobody changes shared state is busy-waiting for a deadline: like idle
    // yields, idle clock reads make time run faster (doubling every 16 reads), so that a deadline-bounded busy wait
    // without any yield ends within the decision bound whatever the duration. Any monotone clock is a legal clock.
    if e.progress == e.progress_at_last_read {
        e.idle_reads += 1;
    } else {
        e.idle_reads = 0;
        e.progress_at_last_read = e.progress;
    }
    let sh = (e.idle_reads / 16).min(20);
    if sh > 0 {
        e.clock_ns = e.clock_ns.saturating_add(1_000u64 << sh);
    }
    match e.cfg.time {
        TimePolicy::Tick => e.clock_ns += 1_000,
        TimePolicy::Coarse => {
            let d = e.draw(40);
            if d >= 20 {
                e.clock_ns += (d - 19) * 1_000;
            }
        }
        TimePolicy::Jumpy(max) => {
            let d = e.draw(16);
            if d == 0 {
                let j = e.draw(max.max(1) / 1_000 + 1) * 1_000;
                e.clock_ns += j;
                e.stats.clock_jumps += 1;
            } else {
                e.clock_ns += 1_000;
            }
        }
    }
    e.clock_ns
}

/// side-effect free clock read for the harness
pub fn peek_ns() -> u64 {
    ex().map(|e| e.clock_ns).unwrap_or(0)
}

pub fn advance_clock(ns: u64) {
    if let Some(e) = ex() {
        e.clock_ns += ns;
        e.stats.clock_jumps += 1;
    }
}

pub fn stamp() -> u64 {
    ex().map(|e| e.stamp()).unwrap_or(0)
}

pub fn draw(bound: u64) -> u64 {
    ex().map(|e| e.draw(bound)).unwrap_or(0)
}

pub fn steps() -> u64 {
    ex().map(|e| e.steps).unwrap_or(0)
}

/// F13: a weak compare-exchange fails spuriously in about 1 of 16 calls (recorded draw)
pub fn weak_cas_fails() -> bool {
    match ex() {
        Some(e) if e.abort.is_none() => {
            let hit = e.draw(16) == 0;
            if hit {
                e.stats.weak_cas_failures += 1;
            }
            hit
        }
        _ => false,
    }
}

pub fn own_steps() -> u64 {
    ex().map(|e| e.tasks[e.current].own_steps).unwrap_or(0)
}

pub fn set_ctx(c: u64) {
    if let Some(e) = ex() {
        let cur = e.current;
        e.tasks[cur].ctx = c;
    }
}

pub fn ctx_of(t: usize) -> u64 {
    ex().map(|e| e.tasks[t].ctx).unwrap_or(0)
}

pub fn last_park_spurious() -> bool {
    ex().map(|e| e.tasks[e.current].last_park_spurious).unwrap_or(false)
}

pub fn take_probe_log() -> Vec<(u32, u64)> {
    match ex() {
        Some(e) => {
            let cur = e.current;
            std::mem::take(&mut e.tasks[cur].probe_log)
        }
        None => Vec::new(),
    }
}

/// Freeze overlay (F3/F12) for harness-driven enumeration: stall `t` until
/// explicitly released (or for `k` decisions).
pub fn stall_task(t: usize, k: u64) {
    if let Some(e) = ex() {
        e.tasks[t].stall_until = e.steps + k;
        e.stats.stalls += 1;
    }
}

pub fn task_in_cs(t: usize) -> bool {
    ex().map(|e| e.tasks[t].in_cs > 0).unwrap_or(false)
}

pub fn task_finished(t: usize) -> bool {
    ex().map(|e| e.tasks[t].state == TState::Finished).unwrap_or(true)
}

pub fn task_state(t: usize) -> TState {
    ex().map(|e| e.tasks[t].state).unwrap_or(TState::Finished)
}

// ------------------------------------------------------------------ running a whole execution

pub fn run<F: FnOnce() + 'static>(cfg: RunCfg, src: Source, main: F) -> Outcome {
    assert!(!active(), "nested run");
    let mut exec = Box::new(Exec::new(cfg, src));
    let ep: *mut Exec = &mut *exec;
    EXEC.with(|c| c.set(ep));
    let e = unsafe { &mut *ep };
    e.spawn_task(Box::new(main), "main".to_string());
    let mut next = 0usize;
    loop {
        e.current = next;
        let cp: *mut Coro = e.tasks[next].coro.as_mut().unwrap();
        let r = std::panic::catch_unwind(std::panic::AssertUnwindSafe(|| unsafe { (*cp).resume(()) }));
        match r {
            Err(_) => {
                let msg = LAST_PANIC.with(|p| p.borrow().clone());
                e.abort_now(Abort::Panic(msg));
                // the coroutine has unwound completely
                e.tasks[next].state = TState::Finished;
                break;
            }
            Ok(CoroutineResult::Yield(())) => {
                if e.abort.is_some() {
                    break;
                }
                next = e.next_task;
            }
            Ok(CoroutineResult::Return(())) => {
                let cur = e.current;
                e.tasks[cur].state = TState::Finished;
                e.progress += 1;
                // task end is a release operation
                e.tasks[cur].vc.0[cur] += 1;
                e.events += 1;
                for t in e.tasks.iter_mut() {
                    if t.state == TState::Joining(cur) {
                        t.state = TState::Runnable;
                    }
                }
                if e.tasks.iter().all(|t| t.state == TState::Finished) {
                    break;
                }
                e.steps += 1;
                match e.choose(false, true) {
                    Some(n) => {
                        if e.abort.is_some() {
                            break;
                        }
                        next = n
                    }
                    None => {
                        e.abort_now(Abort::Deadlock);
                        break;
                    }
                }
            }
        }
    }
    if let Some((ts, ti, ds, di, strict)) = &e.script {
        if *strict && e.abort.is_none() && (*ti != ts.len() || *di != ds.len()) {
            e.abort = Some(Abort::Diverged(format!(
                "script not consumed: tasks {}/{} draws {}/{}",
                ti,
                ts.len(),
                di,
                ds.len()
            )));
        }
    }
    // tear down
    let mut stuck = Vec::new();
    for (i, t) in e.tasks.iter_mut().enumerate() {
        if t.state != TState::Finished {
            stuck.push((i, e.task_names[i].clone(), format!("{:?}", t.state)));
        }
        if let Some(mut c) = t.coro.take() {
            if !c.done() {
                // abandon the stack without unwinding: nothing on it may run again. This also covers a
                // task that was spawned but never started: its closure (which owns channel handles) is
                // leaked, because running kanal's destructors outside the simulation could spin on a
                // lock that an abandoned task still holds.
                unsafe { c.force_reset() };
            }
            let s = c.into_stack();
            STACKS.with(|p| p.borrow_mut().push(s));
        }
    }
    EXEC.with(|c| c.set(std::ptr::null_mut()));
    let exec = *exec;
    Outcome {
        abort: exec.abort,
        ts: exec.ts,
        ds: exec.ds,
        stats: exec.stats,
        probes: exec.probes,
        clock_ns: exec.clock_ns,
        log_hash: exec.log_hash,
        n_tasks: exec.tasks.len(),
        hb_accesses: exec.mon.accesses,
        hb_cross: exec.mon.cross_accesses,
        stuck,
    }
}
