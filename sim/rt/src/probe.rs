//! Reach probes: `probe(ID)` at rare branches of kanal (hook H7). Counted per
//! run; the current task also gets (id, stamp) appended to its probe log so the
//! harness can attribute "became visible in the channel" stamps to operations.

use crate::exec::ex;

macro_rules! probes {
    ($($name:ident = $val:expr, $text:expr;)*) => {
        $(pub const $name: u32 = $val;)*
        pub const PROBE_NAMES: &[(u32, &str)] = &[$(($val, $text),)*];
    };
}

probes! {
    PUSH_SEND = 0, "push_send: a sender registered in the wait list";
    PUSH_RECV = 1, "push_recv: a receiver registered in the wait list";
    CANCEL_SEND_LOST = 3, "cancel_send_signal: waiter already claimed by a peer";
    CANCEL_RECV_LOST = 5, "cancel_recv_signal: waiter already claimed by a peer";
    PARK_ENTER = 6, "Signal::wait reached the park path (LOCKED -> LOCKED_STARVATION)";
    WAKE_STARVATION = 8, "Signal::wake saw LOCKED_STARVATION and unparked the waiter";
    WAKE_ASYNC = 10, "Signal::wake woke an async waker";
    WAKER_REFRESH = 11, "future re-registered a changed waker";
    POLL_SYNC_FALLBACK = 12, "future poll: waker changed after claim, waited synchronously";
    ABW_SLEEP = 13, "async_blocking_wait reached its sleep phase";
    MUTEX_SLOW = 14, "mutex lock() took the contended path";
    STREAM_REARM = 15, "stream re-armed its future";
    WAIT_ENTER = 16, "Signal::wait entered";
    WAIT_TIMEOUT_ENTER = 17, "Signal::wait_timeout entered";
    ABW_ENTER = 18, "Signal::async_blocking_wait entered";
    TERMINATE_SIGNALS = 19, "terminate_signals released at least one waiter";
    DIRECT_FROM_SENDER = 23, "a receive read directly out of a waiting sender's slot";
    DIRECT_TO_RECEIVER = 24, "a send wrote directly into a waiting receiver's slot";
}

pub const N_PROBES: usize = 48;

#[inline]
pub fn probe(id: u32) {
    if let Some(e) = ex() {
        e.probes[id as usize] += 1;
        let st = e.stamp();
        let cur = e.current;
        let l = &mut e.tasks[cur].probe_log;
        if l.len() < 256 {
            l.push((id, st));
        }
        e.log(0xB000_0000_0000_0000 ^ id as u64);
    }
}
